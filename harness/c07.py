"""C07 - masks and indexing follow Python sequence semantics and compose."""
import operator
from typing import Optional
from vp import h as H
from vp.h import Vector, Table

H.standard_env()
ASSUMPTIONS = [
    'vector length <= 3 (quick) / 4 (thorough), element values unbounded symbolic ints (Optional[int] where None matters)',
    'slice start/stop are symbolic in [-(n+2), n+2] or None, step concrete per job in +-1..+-3 or None; CrossHair realises slice parameters at the C boundary, '
    'so the range is chosen to exceed the length on both sides (every clamping case of PySlice_AdjustIndices); the unbounded statement about '
    'slice lengths is the Engine-B lemma (z3/cvc5, all integers)',
    'comparison values other than ints are menu-bounded: {None, NaN, 0.0, 1, inf} (cmp-menu obligations), 2 elements per operand',
    'a wrong-length mask must raise some exception (Vector raises ValueError, Table uses assert)',
]

CMP = {'eq': operator.eq, 'ne': operator.ne, 'lt': operator.lt, 'le': operator.le, 'gt': operator.gt, 'ge': operator.ge}


def engine_b(tier):
    from vp import engine_smt
    return engine_smt.slice_lemma(tier, 'C07')


def h_slice_length_native(start, stop, step, n):
    """Replay target for Engine-B counterexamples."""
    import serif.typeutils as tu
    real = tu.slice_length(slice(start, stop, step), n)
    truth = len(range(*slice(start, stop, step).indices(n)))
    if real != truth:
        return H.fail('slice_length(slice(%r,%r,%r), %d) = %d but range visits %d indices' % (start, stop, step, n, real, truth))
    return H.ok()


def h_cmp(a: int, b: int, c: int, x: int, y: int, z: int, n: int) -> bool:
    """
    pre: H.fix(n=n)
    pre: 0 <= n <= 3
    post: _
    """
    H.reset()
    if H.skip(locals()): return True
    op = H.cfg('op'); form = H.cfg('form'); f = CMP[op]
    vl = H.take([a, b, c], n); wl = H.take([x, y, z], n)
    v = Vector(vl, name='nm')
    if form == 'vv': r = f(v, Vector(wl)); want = [bool(f(p, q)) for p, q in zip(vl, wl)]
    elif form == 'vs': r = f(v, x); want = [bool(f(p, x)) for p in vl]
    elif form == 'vl': r = f(v, list(wl)); want = [bool(f(p, q)) for p, q in zip(vl, wl)]
    elif form == 'self': r = f(v, v); want = [bool(f(p, p)) for p in vl]
    else: raise ValueError(form)
    got = list(r)
    if len(got) != n: return H.fail('length')
    for g, w in zip(got, want):
        if g is not w: return H.fail('%s[%s] %r %r -> %r, Python %r' % (op, form, vl, wl, got, want))
    if n:
        sch = r.schema()
        if sch is None or sch.kind is not bool or sch.nullable: return H.fail('comparison typed %r' % (sch,))
    if not H.same_list(list(v), vl): return H.fail('operand changed')
    return H.ok()


CMENU = [None, float('nan'), 0.0, 1, float('inf')]      # None and NaN are the two values for which x == x does not hold


def _cmp_menu_body(op, form, idx, widx):
    f = CMP[op]
    vl = [CMENU[i] for i in idx]; wl = [CMENU[i] for i in widx]
    def py(p, q_):
        if p is None or q_ is None: return False        # C06: None compares False at its position
        return bool(f(p, q_))
    v = Vector(list(vl), name='nm')
    if form == 'self': r = f(v, v); want = [py(p, p) for p in vl]; shown = (vl, vl)
    elif form == 'self-table':
        t = Table({'p': list(vl), 'q': list(wl)})
        r = f(t, t)
        got = [list(col) for col in r.cols()]
        want = [[py(p, p) for p in vl], [py(p, p) for p in wl]]
        if repr(got) != repr(want): return H.fail('table %s itself, columns %r %r: %r, Python gives %r' % (op, vl, wl, got, want))
        return True
    elif form == 'vv': r = f(v, Vector(list(wl))); want = [py(p, q_) for p, q_ in zip(vl, wl)]; shown = (vl, wl)
    elif form == 'vl': r = f(v, list(wl)); want = [py(p, q_) for p, q_ in zip(vl, wl)]; shown = (vl, wl)
    elif form == 'vs':
        if wl[0] is None: return True                   # a bare None as right operand is outside this obligation
        r = f(v, wl[0]); want = [py(p, wl[0]) for p in vl]; shown = (vl, wl[0])
    else: raise ValueError(form)
    got = list(r)
    if len(got) != len(want) or any(g is not w for g, w in zip(got, want)):
        return H.fail('%s[%s] %r %r -> %r, Python %r' % (op, form, shown[0], shown[1], got, want))
    sch = r.schema()
    if sch is None or sch.kind is not bool or sch.nullable: return H.fail('comparison typed %r' % (sch,))
    # the mask selects exactly the True positions
    if form in ('self', 'vv'):
        kept = list(v[r])
        wantk = [p for p, w in zip(vl, want) if w]
        if repr(kept) != repr(wantk): return H.fail('v[v %s w] kept %r, expected %r' % (op, kept, wantk))
    return True


def h_cmp_menu(i0: int, i1: int, j0: int, j1: int) -> bool:
    """
    pre: 0 <= i0 < 5 and 0 <= i1 < 5 and 0 <= j0 < 5 and 0 <= j1 < 5
    pre: H.cfg('form') != 'self' or (j0 == 0 and j1 == 0)
    pre: H.cfg('form') != 'vs' or j1 == 0
    post: _
    """
    H.reset()
    if H.skip(locals()): return True
    M = list(range(len(CMENU)))
    idx = (H.among(M, i0), H.among(M, i1)); widx = (H.among(M, j0), H.among(M, j1))
    if H.concrete(_cmp_menu_body, H.cfg('op'), H.cfg('form'), idx, widx) is not True: return False
    return H.ok()


def h_cmp_table(a: int, b: int, c: int, d: int, s: int) -> bool:
    """
    post: _
    """
    H.reset()
    if H.skip(locals()): return True
    op = H.cfg('op'); f = CMP[op]
    t = Table({'p': [a, b], 'q': [c, d]})
    if H.cfg('self'):
        r = f(t, t); want = [[bool(f(a, a)), bool(f(b, b))], [bool(f(c, c)), bool(f(d, d))]]
    else:
        r = f(t, s); want = [[bool(f(a, s)), bool(f(b, s))], [bool(f(c, s)), bool(f(d, s))]]
    if not isinstance(r, Table): return H.fail('table comparison returned %r' % (type(r),))
    got = [list(col) for col in r.cols()]
    if got != want: return H.fail('table %s: %r, expected %r' % (op, got, want))
    for col in r.cols():
        if col.schema().kind is not bool or col.schema().nullable: return H.fail('typed %r' % (col.schema(),))
    return H.ok()


def h_int_index(a: Optional[int], b: Optional[int], c: Optional[int], d: Optional[int], n: int, i: int) -> bool:
    """
    pre: 0 <= n <= H.cfg('R', 3)
    pre: -7 <= i <= 7
    post: _
    """
    H.reset()
    if H.skip(locals()): return True
    vl = H.take([a, b, c, d], n)
    v = Vector(vl) if n else Vector([], dtype=int)
    try:
        want = vl[i]; werr = False
    except IndexError:
        werr = True
    try:
        got = v[i]; gerr = False
    except IndexError:
        gerr = True
    if werr != gerr: return H.fail('v[%r] on %r: IndexError %r, list %r' % (i, vl, gerr, werr))
    if not werr and not H.same(got, want): return H.fail('v[%r] = %r, list gives %r' % (i, got, want))
    return H.ok()


def h_slice(a: int, b: int, c: int, d: int, n: int, lo: Optional[int], hi: Optional[int]) -> bool:
    """
    pre: H.fix(n=n)
    pre: 0 <= n <= 4
    pre: lo is None or -(n + 2) <= lo <= n + 2
    pre: hi is None or -(n + 2) <= hi <= n + 2
    post: _
    """
    H.reset()
    if H.skip(locals()): return True
    step = H.cfg('step')
    vl = H.take([a, b, c, d], n)
    v = Vector(vl, name='nm') if n else Vector([], dtype=int, name='nm')
    want = vl[lo:hi:step]
    r = v[lo:hi:step]
    if not isinstance(r, Vector): return H.fail('not a vector')
    if not H.same_list(list(r), want): return H.fail('v[%r:%r:%r] on %r = %r, list gives %r' % (lo, hi, step, vl, list(r), want))
    if r.name != 'nm': return H.fail('name lost: %r' % (r.name,))
    if r.schema() is None or r.schema().kind is not int: return H.fail('kind changed: %r' % (r.schema(),))
    if not H.same_list(list(v), vl): return H.fail('operand changed')
    import serif.typeutils as tu
    if tu.slice_length(slice(lo, hi, step), n) != len(want): return H.fail('slice_length disagrees with the list slice')
    return H.ok()


def h_mask(a: Optional[int], b: Optional[int], c: Optional[int], d: Optional[int], n: int, m0: bool, m1: bool, m2: bool, m3: bool, mlen: int) -> bool:
    """
    pre: H.fix(n=n)
    pre: 0 <= n <= 4 and 0 <= mlen <= 4
    post: _
    """
    H.reset()
    if H.skip(locals()): return True
    form = H.cfg('form')
    vl = H.take([a, b, c, d], n)
    ml = H.take([m0, m1, m2, m3], mlen)
    ml = [True if x else False for x in ml]
    v = Vector(vl, name='nm') if n else Vector([], dtype=int, name='nm')
    key = Vector(ml) if form == 'vector' else list(ml)
    if mlen == 0:
        return True      # an empty list / empty vector is not a boolean mask
    if mlen != n:
        try:
            r = v[key]
        except Exception:
            return H.ok()
        return H.fail('mask of length %d on vector of length %d returned %r' % (mlen, n, list(r)))
    r = v[key]
    want = [e for e, m in zip(vl, ml) if m]
    if not H.same_list(list(r), want): return H.fail('v[%r] on %r = %r, expected %r' % (ml, vl, list(r), want))
    if r.name != 'nm': return H.fail('name lost')
    if r.schema() is None or r.schema().kind is not v.schema().kind: return H.fail('kind changed %r -> %r' % (v.schema(), r.schema()))
    t = H.truthful(r)
    if t: return H.fail(t)
    return H.ok()


def h_mask_reuse(a: int, b: int, c: int, m0: bool, m1: bool, m2: bool, i: int, nb: bool) -> bool:
    """
    pre: 0 <= i <= 2
    post: _
    """
    # the same mask object is used, written, and used again (on a vector and on a table): each use follows the mask's current bits
    H.reset()
    if H.skip(locals()): return True
    vl = [a, b, c]
    bits = [True if m0 else False, True if m1 else False, True if m2 else False]
    v = Vector(vl, name='nm'); t = Table({'p': vl, 'q': [10, 20, 30]})
    mask = Vector(bits)
    first = list(v[mask]); tfirst = [list(col) for col in t[mask].cols()]
    if not H.same_list(first, [e for e, k in zip(vl, bits) if k]): return H.fail('first use wrong')
    mask[i] = True if nb else False
    bits2 = list(bits)
    for k in range(3):
        if i == k: bits2[k] = True if nb else False
    second = list(v[mask])
    want = [e for e, k in zip(vl, bits2) if k]
    if not H.same_list(second, want): return H.fail('v[mask] after mask[%r] = %r: %r, expected %r (bits %r -> %r)' % (i, nb, second, want, bits, bits2))
    tsecond = [list(col) for col in t[mask].cols()]
    if tsecond != [want, [e for e, k in zip([10, 20, 30], bits2) if k]]: return H.fail('t[mask] after the mask was written: %r' % (tsecond,))
    # masks built by reflected logical operators
    other = [True, False, True]
    for name, r, w_ in (('list ^ mask', other ^ mask, [x != y for x, y in zip(other, bits2)]), ('list & mask', other & mask, [x and y for x, y in zip(other, bits2)]),
                        ('list | mask', other | mask, [x or y for x, y in zip(other, bits2)])):
        if list(r) != w_: return H.fail('%s = %r, expected %r' % (name, list(r), w_))
        if not H.same_list(list(v[r]), [e for e, k in zip(vl, w_) if k]): return H.fail('v[%s] wrong' % name)
    return H.ok()


def h_index_list(a: int, b: int, c: int, i: int, j: int, n: int) -> bool:
    """
    pre: 1 <= n <= 3 and -4 <= i <= 4 and -4 <= j <= 4
    post: _
    """
    H.reset()
    if H.skip(locals()): return True
    vl = H.take([a, b, c], n)
    v = Vector(vl, name='nm')
    if -n <= i < n:
        # a one-element index list is still a list selection (also on str elements, which are themselves indexable)
        for vec, src in ((v, vl), (Vector(['ann', 'bob', 'cy'][:n]), ['ann', 'bob', 'cy'][:n])):
            one = vec[[i]] if H.cfg('form') != 'vector' else vec[Vector([i])]
            if not isinstance(one, Vector) or not H.same_list(list(one), [src[i]]): return H.fail('v[[%r]] on %r = %r, expected %r' % (i, src, list(one) if isinstance(one, Vector) else one, [src[i]]))
    key = Vector([i, j]) if H.cfg('form') == 'vector' else [i, j]
    try:
        want = [vl[i], vl[j]]; werr = False
    except IndexError:
        werr = True
    try:
        r = v[key]; gerr = False
    except IndexError:
        gerr = True
    if werr != gerr: return H.fail('v[[%r,%r]] on %r: IndexError %r, list %r' % (i, j, vl, gerr, werr))
    if not werr:
        if not H.same_list(list(r), want): return H.fail('v[[%r,%r]] = %r, expected %r' % (i, j, list(r), want))
        if r.name != 'nm': return H.fail('name lost')
    return H.ok()


# ------------------------------------------------------------------ tables
RNG = [None, -5, -4, -3, -2, -1, 0, 1, 2, 3, 4, 5]


def _rows_body(form, step, lo, hi, ml):
    A = [11, 12, 13]; B = [None, 22, 23]
    t = Table({'p': A, 'q': B})
    before = H.snap(t)
    if form == 'slice':
        r = t[lo:hi:step]; wa = A[lo:hi:step]; wb = B[lo:hi:step]
    elif form in ('mask-vector', 'mask-list'):
        r = t[Vector(ml)] if form == 'mask-vector' else t[ml]
        wa = [e for e, m in zip(A, ml) if m]; wb = [e for e, m in zip(B, ml) if m]
    elif form == 'mask-wrong':
        try:
            r = t[Vector(ml[:2])] if ml[2] else t[ml[:2]]
        except Exception:
            return True
        return H.fail('wrong-length row mask accepted')
    elif form == 'index-vector':
        idx = [0 if lo is None else lo, 0 if hi is None else hi]
        try:
            wa = [A[i] for i in idx]; wb = [B[i] for i in idx]
        except IndexError:
            try:
                t[Vector(idx)]
            except IndexError:
                return True
            return H.fail('out-of-range row index vector accepted')
        r = t[Vector(idx)]
    else:
        raise ValueError(form)
    if not isinstance(r, Table): return H.fail('row selection %s returned %r' % (form, type(r)))
    cols = r.cols()
    if len(cols) != 2: return H.fail('columns lost')
    if not H.same_list(list(cols[0]), wa) or not H.same_list(list(cols[1]), wb):
        return H.fail('row selection %s (%r:%r:%r / %r): %r / %r, expected %r / %r' % (form, lo, hi, step, ml, list(cols[0]), list(cols[1]), wa, wb))
    if r.column_names() != ['p', 'q']: return H.fail('names %r' % (r.column_names(),))
    if not H.snap_eq(before, H.snap(t)): return H.fail('operand changed')
    why = H.rect(r) or H.all_truthful(r)
    if why: return H.fail(why)
    return True


def h_table_rows(li: int, hi_: int, m0: bool, m1: bool, m2: bool) -> bool:
    """
    pre: 0 <= li < len(RNG) and 0 <= hi_ < len(RNG)
    post: _
    """
    H.reset()
    if H.skip(locals()): return True
    form = H.cfg('form')
    if form.startswith('mask'):
        ml = [True if m0 else False, True if m1 else False, True if m2 else False]
        lo = hi = None
    else:
        ml = None
        lo = H.pick(RNG, li); hi = H.pick(RNG, hi_)
    if not H.concrete(_rows_body, form, H.cfg('step'), lo, hi, ml): return False
    return H.ok()


NAMES = ['a', 'b', 'A b', 'a', None, 'sum']


def _cols_body(n0, n1, n2, k0, k1, nk):
    names = [NAMES[n0], NAMES[n1], NAMES[n2]]
    data = [[1, 2], [3, 4], [5, 6]]
    t = Table([Vector(d, name=nm) for d, nm in zip(data, names)])
    keys = ['a', 'b', 'A b', 'missing', 'sum', 'a_b', 'B']
    ks = tuple([keys[k0], keys[k1]][:nk])
    # expectation from the documented single-name lookup: the first column whose stored name is the key
    want = []
    missing = False
    lenient = False
    for k in ks:
        hit = None
        for j, nm in enumerate(names):
            if nm == k:
                hit = j
                break
        if hit is None:
            try:
                single = t[k]          # sanitised / generated accessor forms may resolve through the single-name lookup
            except Exception:
                missing = True
                break
            hit = [j for j, ccol in enumerate(t.cols()) if ccol is single][0]
            lenient = True             # not a stored name: an error is acceptable too (the statement only promises stored names)
        want.append(hit)
    try:
        r = t[ks] if nk == 2 else t[ks[0]]
    except Exception as e:
        if missing or lenient: return True
        return H.fail('t[%r] with names %r raised %r' % (ks, names, e))
    if missing: return H.fail('t[%r] with names %r returned %r although a requested column does not exist' % (ks, names, r.column_names() if isinstance(r, Table) else r))
    if nk == 1:
        if not H.same_list(list(r), data[want[0]]): return H.fail('t[%r] resolved to %r' % (ks[0], list(r)))
        return True
    got = [list(c) for c in r.cols()]
    if got != [data[j] for j in want]: return H.fail('t[%r] with names %r gave %r, expected columns %r' % (ks, names, got, want))
    if r.column_names() != [names[j] for j in want]: return H.fail('names %r' % (r.column_names(),))
    return True


def h_table_cols(n0: int, n1: int, n2: int, k0: int, k1: int, nk: int) -> bool:
    """
    pre: 0 <= n0 < 6 and 0 <= n1 < 6 and 0 <= n2 < 6 and 0 <= k0 < 7 and 0 <= k1 < 7 and 1 <= nk <= 2
    pre: H.fix(nk=nk, n2=n2)
    pre: nk == 2 or k1 == 0
    post: _
    """
    H.reset()
    if H.skip(locals()): return True
    R6 = list(range(6)); R7 = list(range(7))
    args = (H.pick(R6, n0), H.pick(R6, n1), H.pick(R6, n2), H.pick(R7, k0), H.pick(R7, k1), H.pick([0, 1, 2], nk))
    if not H.concrete(_cols_body, *args): return False
    return H.ok()


def _commute_body(rows_kind, step, lo, hi, ml, c0, c1):
    src = {'p': [11, 12, 13], 'q': [21, 22, 23], 'r': [7, 8, 9]}
    t = Table(src)
    names = ['p', 'q', 'r']
    cols = (names[c0], names[c1])
    rows = slice(lo, hi, step) if rows_kind == 'slice' else ml
    left = t[rows][cols]
    right = t[cols][rows]
    if left.column_names() != right.column_names(): return H.fail('names differ: %r vs %r' % (left.column_names(), right.column_names()))
    lc = [list(col) for col in left.cols()]; rc = [list(col) for col in right.cols()]
    if lc != rc: return H.fail('t[rows][cols] = %r but t[cols][rows] = %r (rows %r cols %r)' % (lc, rc, rows, cols))
    if left.column_names() != list(cols): return H.fail('names %r' % (left.column_names(),))
    for nm, col in zip(cols, lc):
        want = src[nm][rows] if isinstance(rows, slice) else [e for e, m in zip(src[nm], rows) if m]
        if col != want: return H.fail('column %r: %r expected %r' % (nm, col, want))
    # 2-D form agrees where it is defined (slice rows)
    if rows_kind == 'slice':
        two = t[rows, cols]
        if [list(col) for col in two.cols()] != lc: return H.fail('t[rows, cols] differs from t[rows][cols]')
    return True


def h_commute(li: int, hi_: int, m0: bool, m1: bool, m2: bool, c0: int, c1: int) -> bool:
    """
    pre: 0 <= li < len(RNG) and 0 <= hi_ < len(RNG)
    pre: 0 <= c0 <= 2 and 0 <= c1 <= 2
    pre: H.cfg('rows') == 'slice' or (li == 0 and hi_ == 0)
    post: _
    """
    H.reset()
    if H.skip(locals()): return True
    R3 = [0, 1, 2]
    if H.cfg('rows') == 'mask':
        ml = [True if m0 else False, True if m1 else False, True if m2 else False]
        lo = hi = None
    else:
        ml = None
        lo = H.pick(RNG, li); hi = H.pick(RNG, hi_)
    if not H.concrete(_commute_body, H.cfg('rows'), H.cfg('step'), lo, hi, ml, H.pick(R3, c0), H.pick(R3, c1)): return False
    return H.ok()


def obligations(tier):
    q = tier == 'quick'
    obs = []
    for op in CMP:
        for form in ('vv', 'vs', 'vl', 'self'):
            for n in ((3,) if q else (0, 1, 2, 3)):
                obs.append(dict(name='cmp[%s,%s,n=%d]' % (op, form, n), fn='h_cmp', config={'op': op, 'form': form, 'n': n}, budget=60 if q else 300,
                                bounds='%d-element int vectors, unbounded symbolic' % n, smoke=[[1, 2, 3, 3, 2, 1, n]]))
        for form in ('vv', 'vs', 'vl', 'self', 'self-table'):
            obs.append(dict(name='cmp-menu[%s,%s]' % (op, form), fn='h_cmp_menu', config={'op': op, 'form': form}, budget=90 if q else 200,
                            bounds='2-element operands, every element a solver-chosen entry of {None, NaN, 0.0, 1, inf}; forms vector/vector, vector/scalar, vector/list, a vector (or table) against itself; the resulting mask is also applied',
                            smoke=[[1, 3, 0, 0], [2, 2, 0, 0]]))
        for sf in (False, True):
            obs.append(dict(name='cmp-table[%s,%s]' % (op, 'self' if sf else 'scalar'), fn='h_cmp_table', config={'op': op, 'self': sf}, budget=60 if q else 300,
                            bounds='2x2 int table vs scalar / vs itself', smoke=[[1, 2, 3, 4, 2]]))
    R = 3 if q else 4
    obs.append(dict(name='int-index[n<=%d]' % R, fn='h_int_index', config={'R': R}, budget=90 if q else 400,
                    bounds='length 0..%d, index symbolic in [-7,7], Optional[int] elements' % R, smoke=[[1, None, 3, 4, 3, -1], [1, 2, 3, 4, 2, 2]]))
    steps = [None, 1, -1, 2, -2, 3, -3]
    for step in steps:
        for n in range(0, (4 if q else 5)):
            obs.append(dict(name='slice[step=%s,n=%d]' % (step, n), fn='h_slice', config={'step': step, 'n': n}, budget=90 if q else 400,
                            bounds='length %d, start/stop symbolic in [-%d,%d] or None, step %s' % (n, n + 2, n + 2, step),
                            smoke=[[1, 2, 3, 4, n, 0, 0], [1, 2, 3, 4, n, None, None], [1, 2, 3, 4, n, 5, 1]]))
    for form in ('vector', 'list'):
        for n in range(0, (4 if q else 5)):
            obs.append(dict(name='mask[%s,n=%d]' % (form, n), fn='h_mask', config={'form': form, 'n': n}, budget=90 if q else 400,
                            bounds='length %d, Optional[int] elements, mask bits and mask length (0..4) symbolic' % n,
                            smoke=[[1, None, 3, 4, n, True, False, True, False, n]]))
        obs.append(dict(name='index-list[%s]' % form, fn='h_index_list', config={'form': form}, budget=90 if q else 300,
                        bounds='length 1..3, two indices symbolic in [-4,4]', smoke=[[1, 2, 3, 0, -1, 3]]))
    obs.append(dict(name='mask-reuse', fn='h_mask_reuse', config={}, budget=120 if q else 300,
                    bounds='3 unbounded ints, mask bits / written position / written bit symbolic: use, write the mask, use again on a vector and a table; masks from reflected ^ & |',
                    smoke=[[1, 2, 3, True, False, True, 1, True]]))
    for step in (None, 1, -1, 2, -2, 3):
        obs.append(dict(name='table-rows[slice,step=%s]' % step, fn='h_table_rows', config={'form': 'slice', 'step': step}, budget=90 if q else 300,
                        bounds='3x2 table, every start/stop in [-5,5] or None', smoke=[[0, 0, True, True, True], [6, 6, True, True, True]]))
    for form in ('mask-vector', 'mask-list', 'mask-wrong', 'index-vector'):
        obs.append(dict(name='table-rows[%s]' % form, fn='h_table_rows', config={'form': form, 'step': None}, budget=90 if q else 300,
                        bounds='3x2 table, every mask / pair of row indices in [-5,5]', smoke=[[7, 8, True, False, True]]))
    for nk in (1, 2):
        for n2 in range(6):
            obs.append(dict(name='table-cols[nk=%d,third=%d]' % (nk, n2), fn='h_table_cols', config={'nk': nk, 'n2': n2}, budget=120 if q else 400,
                            bounds='3 columns named from {a,b,"A b",a,None,sum} (repeats, unsanitary, unnamed, reserved; third fixed per job), %d requested name(s) from 7 incl. a missing one' % nk,
                            smoke=[[0, 1, n2, 0, 3 if nk == 2 else 0, nk], [0, 3, n2, 0, 1 if nk == 2 else 0, nk]]))
    for step in (None, 1, -1, 2):
        obs.append(dict(name='commute[slice,step=%s]' % step, fn='h_commute', config={'rows': 'slice', 'step': step}, budget=120 if q else 400,
                        bounds='3x3 table, every row slice start/stop in [-5,5] or None, every pair of column names (repeats allowed)',
                        smoke=[[6, 8, True, True, True, 0, 1]]))
    obs.append(dict(name='commute[mask]', fn='h_commute', config={'rows': 'mask', 'step': None}, budget=120 if q else 400,
                    bounds='3x3 table, every row mask, every pair of column names', smoke=[[0, 0, True, False, True, 2, 2]]))
    return obs

"""C19 - CSV ingestion is faithful to the file."""
import io, csv, os, tempfile
from vp import h as H
from vp.h import Vector, Table, infer_dtype
from serif import read_csv

H.standard_env()
ASSUMPTIONS = [
    'cell texts come from a menu of adversarial literals (blank, padded, numeric look-alikes, embedded delimiter / quote / newline, unicode digits and letters); which text sits in which cell, '
    'the record lengths (short and long records), header names incl. repeats, has_header and the delimiter are solver variables; grid <= 2x2 (quick) / 3x3 (thorough)',
    'the lexical behaviour of csv.reader itself (C code) is trusted: the text is produced by csv.writer and serif is required to agree with csv.reader on the same text',
    'cells beyond the header width (long records) are ignored by read_csv; the statement is silent, so only the columns named by the header are constrained',
    'path input is exercised on the smoke inputs only (file I/O is blocked under the symbolic executor\'s audit wall); the thorough tier adds a bug-hunting pass of _infer_type on a symbolic str (len <= 3)',
]

CELLS = ['', ' ', '1', ' 42 ', '-7', '007', '1_0', '1e3', '2.5', 'nan', 'abc', ' x ', 'a,b', 'a;b', 'say "hi"', 'l1\nl2', 'é', '١٢', 'True', 'None', '+3', '.5', 'inf', '0x10', '\t', '1.', '1,000', "it's", 'a\tb', ' ', 'a\r\nb', 'x\ry', '1_000', '-2_5']
HEADERS = ['a', 'b', 'a', '', 'A b', 'col_0', '1']
DELIMS = [',', ';', '\t', '|']
CL = H.cfg('cells', 20)


def expect_cell(text):
    """The statement: None if empty or blank, else int if int() accepts the stripped text, else float, else the stripped string."""
    s = text.strip()
    if s == '':
        return None
    try:
        return int(s)
    except ValueError:
        pass
    try:
        return float(s)
    except ValueError:
        return s


def _infer_body(i):
    from serif.csv import _infer_type
    text = CELLS[i]
    got = _infer_type(text); want = expect_cell(text)
    if not H.same(got, want): return H.fail('_infer_type(%r) = %r, the rule gives %r' % (text, got, want))
    return True


def h_infer(i: int) -> bool:
    """
    pre: 0 <= i < len(CELLS)
    post: _
    """
    H.reset()
    if H.skip(locals()): return True
    if not H.concrete(_infer_body, H.among(list(range(len(CELLS))), i)): return False
    return H.ok()


def _check_text(header, records, has_header, delim, use_path):
    buf = io.StringIO()
    w = csv.writer(buf, delimiter=delim, lineterminator='\r\n')      # CR and LF inside cells are then quoted
    if has_header:
        w.writerow(header)
    for rec in records:
        w.writerow(rec)
    text = buf.getvalue()
    parsed = list(csv.reader(io.StringIO(text), delimiter=delim))
    try:
        if use_path:
            fd, path = tempfile.mkstemp(suffix='.csv')
            with os.fdopen(fd, 'w', encoding='utf-8', newline='') as f:
                f.write(text)
            try:
                t = read_csv(path, delimiter=delim, has_header=has_header)
            finally:
                os.unlink(path)
        else:
            t = read_csv(io.StringIO(text), delimiter=delim, has_header=has_header)
    except Exception as e:
        return H.fail('read_csv raised %r on %r (has_header=%r, delimiter=%r)' % (e, text, has_header, delim))
    if not isinstance(t, Table): return H.fail('read_csv returned %r' % (type(t),))
    if not parsed:
        if len(t) != 0 or len(t.cols()) != 0: return H.fail('empty input gave %r' % (t.shape,))
        return True
    if has_header:
        names = parsed[0]; data = parsed[1:]
    else:
        names = ['col_%d' % i for i in range(len(parsed[0]))]; data = parsed
    if t.column_names() != names: return H.fail('columns %r, header cells %r (text %r)' % (t.column_names(), names, text))
    if len(t) != len(data): return H.fail('%d rows for %d records (text %r)' % (len(t), len(data), text))
    for j, col in enumerate(t.cols()):
        want = [expect_cell(rec[j]) if j < len(rec) else None for rec in data]
        got = list(col)
        if not H.same_list(got, want): return H.fail('column %d (%r): %r, expected %r (text %r)' % (j, names[j], got, want, text))
        if data:
            if col.schema() != infer_dtype(want): return H.fail('column %d typed %r, inference rule on %r gives %r' % (j, col.schema(), want, infer_dtype(want)))
    why = H.rect(t) or H.all_truthful(t)
    if why: return H.fail(why)
    return True


HDRS = [('a', 'b', 'c'), ('a', 'a', 'a'), ('', 'A b', '1'), ('col_0', 'x', 'col_0'), ('b', '', 'b'), ('sum', 'if', 'T')]


def h_cells(c0: int, c1: int, hs: int) -> bool:
    """
    pre: 0 <= c0 < len(CELLS) and 0 <= c1 < len(CELLS) and 0 <= hs < len(HDRS)
    pre: H.fix(hs=hs)
    post: _
    """
    H.reset()
    if H.skip(locals()): return True
    RC = list(range(len(CELLS)))
    cells = [H.among(RC, c0), H.among(RC, c1), 2, 10]
    hdr = [HEADERS.index(x) if x in HEADERS else 0 for x in ('a', 'b', 'a')]
    if not H.concrete(_assembly_body2, cells, [2, 2, 1], HDRS[H.cfg('hs')], H.cfg('has_header'), DELIMS[H.cfg('d')], 2, 2, bool(H.cfg('path', False))): return False
    return H.ok()


def h_lengths(l0: int, l1: int, l2: int, W: int, nrec: int, hs: int, d: int, has_header: bool) -> bool:
    """
    pre: 0 <= l0 <= 4 and 0 <= l1 <= 4 and 0 <= l2 <= 4 and 1 <= W <= 3 and 0 <= nrec <= 3 and 0 <= hs < len(HDRS) and 0 <= d < len(DELIMS)
    pre: H.fix(W=W, has_header=has_header)
    pre: (nrec >= 3 or l2 == 0) and (nrec >= 2 or l1 == 0) and (nrec >= 1 or l0 == 0)
    pre: has_header or nrec == 0 or l0 >= 1
    pre: hs == 0 or d == 0
    post: _
    """
    H.reset()
    if H.skip(locals()): return True
    R5 = [0, 1, 2, 3, 4]
    lens = [H.among(R5, l0), H.among(R5, l1), H.among(R5, l2)]
    if not H.concrete(_assembly_body2, [2, 12, 0, 14, 9], lens, HDRS[H.among(list(range(len(HDRS))), hs)], H.cfg('has_header'), DELIMS[H.among(list(range(len(DELIMS))), d)],
                      H.among([0, 1, 2, 3], nrec), H.cfg('W'), False): return False
    return H.ok()


def _assembly_body2(cells, lens, hdrnames, has_header, delim, nrec, W, use_path):
    header = list(hdrnames[:W])
    records = []
    for r in range(nrec):
        records.append([CELLS[cells[(r * 2 + c) % len(cells)]] for c in range(lens[r])])
    return _check_text(header, records, has_header, delim, use_path)


def h_symbolic_cell(s: str) -> bool:
    """
    pre: len(s) <= 3
    post: _
    """
    from serif.csv import _infer_type
    got = _infer_type(s)
    if s.strip() == '':
        return got is None
    return got is not None


def obligations(tier):
    q = tier == 'quick'
    obs = []
    obs.append(dict(name='infer-type', fn='h_infer', config={}, budget=60, bounds='all %d menu cell texts' % len(CELLS), smoke=[[0], [3], [9], [15]]))
    for has_header in (True, False):
        for d in range(len(DELIMS)):
            for hs in ((0, 2) if q else range(len(HDRS))):
                obs.append(dict(name='cells[header=%d,delim=%d,names=%d]' % (has_header, d, hs), fn='h_cells', config={'has_header': has_header, 'd': d, 'hs': hs}, budget=90 if q else 300,
                                bounds='2 records x 2 cells: every ordered pair of the %d menu texts in the first record (embedded delimiter / quote / newline / unicode / numeric look-alikes), delimiter %r, header %r'
                                % (len(CELLS), DELIMS[d], HDRS[hs][:2]), smoke=[[2, 10, hs], [12, 15, hs], [14, 0, hs]]))
        for W in (1, 2, 3):
            obs.append(dict(name='lengths[header=%d,W=%d]' % (has_header, W), fn='h_lengths', config={'has_header': has_header, 'W': W}, budget=120 if q else 400,
                            bounds='0..3 records of every length 0..4 (short records padded, long records cut) against %d header cell(s); 6 header name patterns incl. repeats / empty / reserved; 4 delimiters' % W,
                            smoke=[[2, 1, 0, W, 2, 0, 0, has_header], [3, 0, 4, W, 3, 1, 0, has_header], [0, 0, 0, W, 0, 0, 0, has_header]]))
        obs.append(dict(name='path-input[header=%d]' % has_header, fn='h_cells', config={'has_header': has_header, 'd': 0, 'hs': 0, 'path': True}, budget=120 if q else 300,
                        bounds='the cells check through a real file given by path (utf-8, newline handling of the path branch)', smoke=[[2, 10, 0], [15, 16, 0]]))
    if not q:
        obs.append(dict(name='symbolic-cell (bug hunting only)', fn='h_symbolic_cell', config={}, budget=600, twin=False,
                        bounds='_infer_type on a symbolic str, len <= 3 (CrossHair string model; inconclusive by construction)'))
    return obs

"""C13 - window functions keep every row in place and agree with aggregate."""
from vp import h as H
from harness import c12
from harness.c12 import h_agg_int, h_agg_float, h_same_name, h_agg_keycol, _pre

H.standard_env()
ASSUMPTIONS = list(c12.ASSUMPTIONS) + [
    'every window value is compared both with the textbook function of the row\'s group and with serif\'s own aggregate() output joined back on the key '
    '(so a common-mode bug in the shared aggregation code cannot hide)',
]


def obligations(tier):
    return c12.obligations(tier, win=True, prefix='window')

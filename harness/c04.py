"""C04 - dtype inference and promotion form an order-independent lattice."""
from typing import Optional, Union
from decimal import Decimal
from datetime import date, datetime
from vp import h as H
from vp.h import Vector, Table, DataType, infer_dtype

H.standard_env()
ASSUMPTIONS = [
    'elements None/bool/int/float/str are fully symbolic; complex, bytes, date, datetime, list, tuple, dict, Decimal, a user class, '
    'a str subclass and an int subclass enter through a menu of concrete representatives selected by a symbolic index',
    'sequence length <= 3 for the direct permutation check; arbitrary length follows from the init/step/absorb lemmas (paper induction, DESIGN.md C04)',
]

Sym = Union[None, bool, int, float, str]


class MyStr(str):
    pass


class MyInt(int):
    pass


class Thing:
    def __eq__(self, o):
        return isinstance(o, Thing)
    def __hash__(self):
        return 7


MENU = [None, True, 2, 2.5, 1 + 2j, 'x', b'x', date(2020, 1, 2), datetime(2020, 1, 2, 3, 4), [1], (1,), {'a': 1},
        Decimal('1.5'), Thing(), MyStr('s'), MyInt(3), False, 0, -0.0, float('nan'), '', Decimal('2'), Thing()]
EXACT = 13   # MENU[:EXACT] + [16:] are instances whose class is exactly their inferred kind (no subclass ambiguity)
ML = H.cfg('menu', 16)   # quick: the 16 distinct classes; thorough: all 23 (adds value variants False, 0, -0.0, nan, '', ...)

_NUM = [bool, int, float, complex]


def expected(vals):
    """The lattice of the statement, written independently of serif.typing."""
    nullable = False
    kinds = []
    for v in vals:
        if v is None:
            nullable = True
            continue
        k = type(v)
        if k not in kinds:
            kinds.append(k)
    if not kinds:
        return DataType(object, nullable=True)
    if len(kinds) == 1:
        return DataType(kinds[0], nullable)
    if all(k in _NUM for k in kinds):
        return DataType(_NUM[max(_NUM.index(k) for k in kinds)], nullable)
    if all(k in (date, datetime) for k in kinds):
        return DataType(datetime, nullable)
    return DataType(object, nullable)


def _rank(kind):
    if kind in _NUM:
        return ('n', _NUM.index(kind))
    if kind in (date, datetime):
        return ('t', 0 if kind is date else 1)
    return ('o', 0)


def not_narrower(new, old):
    """new kind is old kind, or higher on the same ladder, or object."""
    if new is old or new is object:
        return True
    a, b = _rank(new), _rank(old)
    return a[0] == b[0] and a[0] != 'o' and a[1] >= b[1]


# ----------------------------------------------------------------- direct checks
def h_perm3(a: Sym, b: Sym, c: Sym, n: int) -> bool:
    """
    pre: 0 <= n <= 3
    post: _
    """
    H.reset()
    if H.skip(locals()): return True
    vals = [a, b, c][:n]
    d = infer_dtype(vals)
    want = expected(vals)
    if d != want: return H.fail('infer_dtype(%r) = %r, lattice says %r' % (vals, d, want))
    if n == 3:
        for p in ([a, c, b], [b, a, c], [b, c, a], [c, a, b], [c, b, a]):
            if infer_dtype(p) != d: return H.fail('order dependent: %r -> %r but %r -> %r' % (vals, d, p, infer_dtype(p)))
    elif n == 2:
        if infer_dtype([b, a]) != d: return H.fail('order dependent: %r' % (vals,))
    # Vector construction infers by the same rule
    if n > 0:
        v = Vector(vals)
        if v.schema() != d: return H.fail('Vector(%r).schema() = %r, infer_dtype gives %r' % (vals, v.schema(), d))
    return H.ok()


def h_perm_menu(i: int, j: int, k: int, n: int) -> bool:
    """
    pre: 0 <= i < ML and 0 <= j < ML and 0 <= k < ML
    pre: 2 <= n <= 3
    pre: H.fix(i=i, n=n)
    pre: n == 3 or k == 0
    post: _
    """
    H.reset()
    if H.skip(locals()): return True
    vals = [H.pick(MENU, i), H.pick(MENU, j), H.pick(MENU, k)][:n]
    d = infer_dtype(vals)
    exact = all((x < EXACT or x >= 16) for x in [i, j, k][:n])
    if exact:
        want = expected(vals)
        if d != want: return H.fail('infer_dtype(%r) = %r, lattice says %r' % (vals, d, want))
    perms = [[1, 0, 2], [0, 2, 1], [2, 1, 0], [1, 2, 0], [2, 0, 1]] if n == 3 else [[1, 0]]
    for p in perms:
        q = [vals[x] for x in p]
        if infer_dtype(q) != d: return H.fail('order dependent: %r -> %r but %r -> %r' % (vals, d, q, infer_dtype(q)))
    return H.ok()


# ----------------------------------------------------------------- induction lemmas
def _dtype_from(kind_i, nullable):
    kinds = [bool, int, float, complex, str, bytes, date, datetime, object, list, Decimal]
    return DataType(H.pick(kinds, kind_i), nullable)


def _val(sym, use_menu, mi):
    return H.pick(MENU, mi) if use_menu else sym


def _step(d, x, y):
    l = d.promote_with(x).promote_with(y)
    r = d.promote_with(y).promote_with(x)
    if l != r: return H.fail('%r: promote %r then %r = %r, other order = %r' % (d, x, y, l, r))
    # monotone, keeps nullability, idempotent
    p = d.promote_with(x)
    if not not_narrower(p.kind, d.kind): return H.fail('%r.promote_with(%r) narrowed to %r' % (d, x, p))
    if d.nullable and not p.nullable: return H.fail('%r.promote_with(%r) dropped nullability' % (d, x))
    if x is None and not p.nullable: return H.fail('None did not lift nullability')
    if x is None and p.kind is not d.kind: return H.fail('None changed the kind')
    if p.promote_with(x) != p: return H.fail('not idempotent: %r with %r' % (d, x))
    return True


def h_step_ss(kind_i: int, nullable: bool, a: Sym, b: Sym) -> bool:
    """
    pre: 0 <= kind_i <= 10
    pre: H.fix(kind_i=kind_i, nullable=nullable)
    post: _
    """
    H.reset()
    if H.skip(locals()): return True
    if not _step(_dtype_from(kind_i, nullable), a, b): return False
    return H.ok()


def h_step_sm(kind_i: int, nullable: bool, a: Sym, mb: int) -> bool:
    """
    pre: 0 <= kind_i <= 10 and 0 <= mb < ML
    pre: H.fix(kind_i=kind_i, nullable=nullable)
    post: _
    """
    H.reset()
    if H.skip(locals()): return True
    y = H.pick(MENU, mb)
    d = _dtype_from(kind_i, nullable)
    if not _step(d, a, y): return False
    if not _step(d, y, a): return False
    return H.ok()


def h_step_mm(kind_i: int, nullable: bool, ma: int, mb: int) -> bool:
    """
    pre: 0 <= kind_i <= 10 and 0 <= ma < ML and 0 <= mb < ML
    pre: H.fix(kind_i=kind_i, nullable=nullable)
    post: _
    """
    H.reset()
    if H.skip(locals()): return True
    if not _step(_dtype_from(kind_i, nullable), H.pick(MENU, ma), H.pick(MENU, mb)): return False
    return H.ok()


def _init(x, y):
    if infer_dtype([x, y]) != infer_dtype([y, x]): return H.fail('infer([%r,%r]) = %r but swapped = %r' % (x, y, infer_dtype([x, y]), infer_dtype([y, x])))
    # absorb: a further value of a type already present changes nothing; a single value is its own kind
    if infer_dtype([x, y, x]) != infer_dtype([x, y]): return H.fail('absorb fails for %r,%r' % (x, y))
    if infer_dtype([x, x]) != infer_dtype([x]): return H.fail('absorb fails for %r' % (x,))
    # a first non-None element starts the chain; every later one is a promotion step
    if x is not None and infer_dtype([x, y]) != infer_dtype([x]).promote_with(y): return H.fail('infer([x,y]) != infer([x]).promote_with(y) for %r,%r' % (x, y))
    if x is None and y is not None and infer_dtype([x, y]) != infer_dtype([y]).promote_with(None): return H.fail('leading None: infer([None,%r])' % (y,))
    return True


def h_init_ss(a: Sym, b: Sym) -> bool:
    """
    post: _
    """
    H.reset()
    if H.skip(locals()): return True
    if not _init(a, b): return False
    return H.ok()


def h_init_sm(a: Sym, mb: int) -> bool:
    """
    pre: 0 <= mb < ML
    post: _
    """
    H.reset()
    if H.skip(locals()): return True
    y = H.pick(MENU, mb)
    if not _init(a, y): return False
    if not _init(y, a): return False
    return H.ok()


def h_init_mm(ma: int, mb: int) -> bool:
    """
    pre: 0 <= ma < ML and 0 <= mb < ML
    post: _
    """
    H.reset()
    if H.skip(locals()): return True
    if not _init(H.pick(MENU, ma), H.pick(MENU, mb)): return False
    return H.ok()


# ----------------------------------------------------------------- typed by the same rule
ARITH = [None, True, 3, 2.5, -2, 0]


def h_typed_arith(a: int, b: int, c: int, d: int, op: int, form: int) -> bool:
    """
    pre: 0 <= a < len(ARITH) and 0 <= b < len(ARITH) and 0 <= c < len(ARITH) and 0 <= d < len(ARITH)
    pre: 0 <= op <= 4 and 0 <= form <= 2
    pre: H.fix(op=op, form=form)
    post: _
    """
    H.reset()
    if H.skip(locals()): return True
    import operator
    f = H.pick([operator.add, operator.sub, operator.mul, operator.floordiv, operator.truediv], op)
    x = [H.pick(ARITH, a), H.pick(ARITH, b)]; y = [H.pick(ARITH, c), H.pick(ARITH, d)]
    v = Vector(x)
    try:
        if form == 0:
            r = f(v, Vector(y))
        elif form == 1:
            r = f(v, y[0])
        else:
            r = f(y[0], v)
    except (ZeroDivisionError, OverflowError, TypeError):
        return True
    if r.schema() != infer_dtype(list(r)): return H.fail('result %r typed %r, rule gives %r' % (list(r), r.schema(), infer_dtype(list(r))))
    return H.ok()


PAY = [None, True, 2, 2.5, 'x']


def h_typed_join(k0: int, k1: int, r0: int, r1: int, p0: int, p1: int, kind: int) -> bool:
    """
    pre: H.rgs_ok([k0, k1, r0, r1])
    pre: 0 <= kind <= 2 and 0 <= p0 < len(PAY) and 0 <= p1 < len(PAY)
    pre: H.fix(kind=kind)
    post: _
    """
    H.reset()
    if H.skip(locals()): return True
    L = Table({'k': [k0, k1], 'x': [10, 20]}); R = Table({'k': [r0, r1], 'p': [H.pick(PAY, p0), H.pick(PAY, p1)]})
    if kind == 0:
        out = L.inner_join(R, 'k', 'k', expect='many_to_many')
    elif kind == 1:
        out = L.join(R, 'k', 'k', expect='many_to_many')
    else:
        out = L.full_join(R, 'k', 'k', expect='many_to_many')
    for c in out.cols():
        if len(c) == 0: continue      # an empty column carries no dtype yet (serif-wide convention)
        if c.schema() != infer_dtype(list(c)): return H.fail('join column %r = %r typed %r, rule gives %r' % (c.name, list(c), c.schema(), infer_dtype(list(c))))
    return H.ok()


def h_typed_agg(k0: int, k1: int, k2: int, v0: Optional[int], v1: Optional[int], v2: Optional[int], win: bool) -> bool:
    """
    pre: H.rgs_ok([k0, k1, k2])
    pre: H.fix(win=win)
    post: _
    """
    H.reset()
    if H.skip(locals()): return True
    t = Table({'k': [k0, k1, k2], 'v': [v0, v1, v2]})
    f = t.window if win else t.aggregate
    out = f(over='k', sum_over='v', min_over='v', max_over='v', count_over='v', mean_over='v')
    for c in out.cols():
        if c.schema() != infer_dtype(list(c)): return H.fail('%s column %r = %r typed %r, rule gives %r' % ('window' if win else 'aggregate', c.name, list(c), c.schema(), infer_dtype(list(c))))
    return H.ok()


CSV_CELLS = ['', ' ', '1', '2.5', 'x', ' 7 ', 'nan', '1e3', '007', 'True']


def h_typed_csv(c0: int, c1: int, c2: int) -> bool:
    """
    pre: 0 <= c0 < len(CSV_CELLS) and 0 <= c1 < len(CSV_CELLS) and 0 <= c2 < len(CSV_CELLS)
    post: _
    """
    H.reset()
    if H.skip(locals()): return True
    import io
    from serif import read_csv
    cells = [H.pick(CSV_CELLS, c0), H.pick(CSV_CELLS, c1), H.pick(CSV_CELLS, c2)]
    text = 'h,g\n' + ''.join('"%s",1\n' % c for c in cells)
    t = read_csv(io.StringIO(text))
    col = t.cols()[0]
    if len(col) != 3: return H.fail('rows lost: %r' % (list(col),))
    if col.schema() != infer_dtype(list(col)): return H.fail('csv column %r typed %r, rule gives %r' % (list(col), col.schema(), infer_dtype(list(col))))
    return H.ok()


def obligations(tier):
    q = tier == 'quick'
    M = 16 if q else len(MENU)
    obs = [
        dict(name='perm3', fn='h_perm3', config={}, budget=120 if q else 600,
             bounds='<=3 elements, each None/bool/int/float/str fully symbolic; all 6 orders; lattice oracle; Vector() agrees',
             smoke=[[1, None, 2.5, 3], [None, 1, 1, 2], ['a', 'b', None, 3], [True, 1, 2.5, 3], [None, None, 1, 3]]),
        dict(name='typed-csv', fn='h_typed_csv', config={}, budget=90 if q else 300, bounds='3 cells from a 10-entry menu', smoke=[[0, 2, 3]]),
    ]
    forms = [('ss', 'sym,sym', [[1, None], [None, 2.5]]), ('sm', 'sym,menu', [[1, 0], [None, 3]]), ('mm', 'menu,menu', [[2, 0], [0, 3]])]
    for sfx, nm, sm in forms:
        obs.append(dict(name='init-commute[%s]' % nm, fn='h_init_' + sfx, config={'menu': M}, budget=120 if q else 600,
                        bounds='2 values (%s): symbolic None/bool/int/float/str or one of %d menu representatives; commute, absorb, chain start' % (nm, M),
                        smoke=sm))
    for i in range(M):
        obs.append(dict(name='perm-menu[first=%d,n=2]' % i, fn='h_perm_menu', config={'i': i, 'n': 2, 'menu': M}, budget=30 if q else 100,
                        bounds='pairs from the %d-entry representative menu, first fixed per job; both orders; lattice oracle for exact-class entries' % M,
                        smoke=[[i, 1, 0, 2], [i, 0, 0, 2]]))
        if not q:
            obs.append(dict(name='perm-menu[first=%d,n=3]' % i, fn='h_perm_menu', config={'i': i, 'n': 3, 'menu': M}, budget=300,
                            bounds='triples from the %d-entry menu, first fixed per job; all 6 orders' % M, smoke=[[i, 1, 3, 3], [i, 0, 7, 3]]))
    for kd in range(11):
        for nl in (False, True):
            for sfx, nm, sm in forms:
                obs.append(dict(name='step-commute[kind=%d,nullable=%d,%s]' % (kd, nl, nm), fn='h_step_' + sfx,
                                config={'kind_i': kd, 'nullable': nl, 'menu': M}, budget=60 if q else 400,
                                bounds='dtype (kind, nullable) fixed per job; two values (%s, menu of %d); commute + monotone + keeps nullable + idempotent' % (nm, M),
                                smoke=[[kd, nl] + x for x in sm]))
    for op in range(5):
        for form in range(3):
            obs.append(dict(name='typed-arith[op=%d,form=%d]' % (op, form), fn='h_typed_arith', config={'op': op, 'form': form},
                            budget=90 if q else 300, bounds='2-element vectors over {None,True,3,2.5,-2,0}; + - * // /; vector, scalar, reflected scalar operand',
                            smoke=[[2, 3, 1, 0, op, form]]))
    for kind in range(3):
        obs.append(dict(name='typed-join[kind=%d]' % kind, fn='h_typed_join', config={'kind': kind}, budget=120 if q else 300,
                        bounds='2x2 rows, all 15 key equality patterns, right payload cells from {None,True,2,2.5,"x"}',
                        smoke=[[0, 1, 1, 2, 0, 2, kind]]))
    for win in (False, True):
        obs.append(dict(name='typed-agg[window=%d]' % win, fn='h_typed_agg', config={'win': win}, budget=120 if q else 300,
                        bounds='3 rows, all key equality patterns, Optional[int] values', smoke=[[0, 1, 0, None, 1, 2, win]]))
    return obs

"""C10 - left and full outer joins keep every row and pad with None."""
from vp import h as H
from harness import joinlib, c09
from harness.joinlib import h_join, join_pre

H.standard_env()
ASSUMPTIONS = list(c09.ASSUMPTIONS) + [
    'containment inner <= left <= full is checked as order-preserving sub-multiset; the symmetric full join is compared after permuting columns, as row multisets',
]


def _big_body(i, j, kind):
    from vp.h import Table
    n = 12
    R = Table({'k': list(range(n)), 'q': [100 + x for x in range(n)]})
    lk = [x for x in range(n) if x not in (i, j)]
    lk = lk[::-1]                      # left order differs from right order
    L = Table({'k': lk, 'p': [x * 2 for x in lk]})
    out = L.full_join(R, 'k', 'k') if kind == 'full' else L.join(R, 'k', 'k')
    want = [(x, x * 2, x, 100 + x) for x in lk]
    if kind == 'full':
        want += [(None, None, x, 100 + x) for x in sorted(set([i, j]))]
    got = H.rows_of(out)
    if not H.rows_eq(got, want): return H.fail('%s join with a 12-row right table, right rows %r unmatched: rows %r, definition gives %r' % (kind, sorted(set([i, j])), got, want))
    return True


def h_big(i: int, j: int) -> bool:
    """
    pre: 0 <= i < 12 and 0 <= j < 12
    post: _
    """
    H.reset()
    if H.skip(locals()): return True
    R12 = list(range(12))
    if not H.concrete(_big_body, H.among(R12, i), H.among(R12, j), H.cfg('kind')): return False
    return H.ok()


def obligations(tier):
    obs = []
    obs += c09.obligations(tier, kind='left', mode='rows', prefix='left')
    obs += c09.obligations(tier, kind='full', mode='rows', prefix='full')
    q = tier == 'quick'
    sizes = [(2, 2), (1, 2), (2, 1), (0, 2), (2, 0), (0, 0), (3, 2), (2, 3)] + ([] if q else [(3, 3), (1, 3), (3, 1)])
    for nl, nr in sizes:
        big = nl + nr >= 5
        obs.append(dict(name='contain[%dx%d]' % (nl, nr), fn='h_join', config={'nl': nl, 'nr': nr, 'kind': 'full', 'mode': 'contain', 'K': 1, 'W': 0, 'ktype': 'int', 'spec': 'name'},
                        budget=150 if q else (1500 if big else 600),
                        bounds='%dx%d rows, all key equality patterns incl. a None class: inner <= left <= full, every row present, full join symmetric' % (nl, nr),
                        smoke=joinlib.smoke(nl, nr, 1, 0)))
    for kind in ('left', 'full'):
        obs.append(dict(name='%s[12-row right table, two unmatched rows]' % kind, fn='h_big', config={'kind': kind}, budget=90,
                        bounds='one axis beyond the symbolic bound: right table of 12 distinct keys, left table holds all but two solver-chosen keys in reverse order; rows and order vs the definition',
                        smoke=[[1, 8], [0, 11]]))
    obs.append(dict(name='contain[2x2,K=2]', fn='h_join', config={'nl': 2, 'nr': 2, 'kind': 'full', 'mode': 'contain', 'K': 2, 'W': 0, 'ktype': 'int', 'spec': 'name', 'nones': False},
                    budget=200 if q else 900, bounds='2x2 rows, composite key, all pattern pairs', smoke=joinlib.smoke(2, 2, 2, 0)))
    return obs

"""C10 - left and full outer joins keep every row and pad with None."""
from vp import h as H
from harness import joinlib, c09
from harness.joinlib import h_join, join_pre

H.standard_env()
ASSUMPTIONS = list(c09.ASSUMPTIONS) + [
    'containment inner <= left <= full is checked as order-preserving sub-multiset; the symmetric full join is compared after permuting columns, as row multisets',
]


def obligations(tier):
    obs = []
    obs += c09.obligations(tier, kind='left', mode='rows', prefix='left')
    obs += c09.obligations(tier, kind='full', mode='rows', prefix='full')
    q = tier == 'quick'
    sizes = [(2, 2), (1, 2), (2, 1), (0, 2), (2, 0), (0, 0), (3, 2), (2, 3)] + ([] if q else [(3, 3), (1, 3), (3, 1)])
    for nl, nr in sizes:
        big = nl + nr >= 5
        obs.append(dict(name='contain[%dx%d]' % (nl, nr), fn='h_join', config={'nl': nl, 'nr': nr, 'kind': 'full', 'mode': 'contain', 'K': 1, 'W': 0, 'ktype': 'int', 'spec': 'name'},
                        budget=150 if q else (1500 if big else 600),
                        bounds='%dx%d rows, all key equality patterns incl. a None class: inner <= left <= full, every row present, full join symmetric' % (nl, nr),
                        smoke=joinlib.smoke(nl, nr, 1, 0)))
    obs.append(dict(name='contain[2x2,K=2]', fn='h_join', config={'nl': 2, 'nr': 2, 'kind': 'full', 'mode': 'contain', 'K': 2, 'W': 0, 'ktype': 'int', 'spec': 'name', 'nones': False},
                    budget=200 if q else 900, bounds='2x2 rows, composite key, all pattern pairs', smoke=joinlib.smoke(2, 2, 2, 0)))
    return obs

"""C01 - value semantics: writes stay local, read-only operations are pure."""
from typing import Union
from vp import h as H
from vp.h import Vector, Table, AliasError

H.standard_env()
ASSUMPTIONS = [
    'a world of live objects is built through the public API only: origin (11 kinds) -> derivation (27 kinds) -> one write through one handle (18 write forms); '
    'which origin/derivation/handle/write form/row is a solver variable (symbolic index), the calls then run natively on concrete, pairwise distinct cell values; '
    'written values include a promoting float and None so that the promotion and nullability paths of the write run',
    'oracle is behavioural: snapshot (contents, names, dtypes, length) of every live object before and after; everything outside the written object\'s family '
    '(the object itself, and for a column view its owning table and that table\'s other views of the same column) must be unchanged; a refused write must be AliasError and change nothing',
    'id() of storage tuples is replaced by a never-reusing stub so that identity reuse (C15) cannot leak into this check',
    'histories of depth 2 (quick) / 3 (thorough) over a 14-operation alphabet; deeper histories rely on the ownership induction of DESIGN.md section 1',
    'mutation of mutable element objects (a list stored in an object column) is not a write through a Vector/Table handle and is outside the claim',
]


def base_table(tag=0):
    return Table({'a': [1 + tag, 2 + tag, 3 + tag], 'b': [10 + tag, 20 + tag, 30 + tag]})


class World:
    def __init__(self):
        self.objs = []      # (label, object, owner_index or None)

    def add(self, label, obj, owner=None):
        if isinstance(obj, (Vector, Table)) and not any(o is obj for _, o, _ in self.objs):
            self.objs.append((label, obj, owner))
        return obj

    def snaps(self):
        return [H.snap(o) for _, o, _ in self.objs]

    def family(self, k):
        """Indices whose observable state may legitimately change when object k is written."""
        fam = {k}
        label, obj, owner = self.objs[k]
        if owner is not None:
            fam.add(owner)
            for j, (_, o2, ow2) in enumerate(self.objs):
                if ow2 == owner:
                    fam.add(j)          # sibling views of the same table
        for j, (_, o2, ow2) in enumerate(self.objs):
            if ow2 == k:
                fam.add(j)              # views into the written table
        return fam


ORIGINS = ['dict', 'rshift', 'list', 'row-slice', 'mask', 'colsel', 'sel2d', 'join', 'sort', 'vector', 'vector-slice']


def make_origin(w, origin):
    va = w.add('input va', Vector([1, 2, 3], name='a'))
    vb = w.add('input vb', Vector([10, 20, 30], name='b'))
    if origin == 'dict':
        return w.add('parent', Table({'a': va, 'b': vb}))
    if origin == 'rshift':
        return w.add('parent', va >> vb)
    if origin == 'list':
        return w.add('parent', Table([va, vb]))
    src = w.add('source table', Table({'a': va, 'b': vb, 'c': [7, 8, 9]}))
    if origin == 'row-slice':
        return w.add('parent', src[0:3])
    if origin == 'mask':
        return w.add('parent', src[[True, True, True]])
    if origin == 'colsel':
        return w.add('parent', src['a', 'b'])
    if origin == 'sel2d':
        return w.add('parent', src[0:3, ('a', 'b')])
    if origin == 'join':
        other = w.add('join partner', Table({'a': [1, 2, 3], 'z': [5, 6, 7]}))
        return w.add('parent', src.join(other, 'a', 'a'))
    if origin == 'sort':
        return w.add('parent', src.sort_by('a'))
    if origin == 'vector':
        return w.add('parent', Vector([1, 2, 3], name='a'))
    if origin == 'vector-slice':
        return w.add('parent', va[0:3])
    raise ValueError(origin)


DERIVS = ['rshift-empty-dict', 'sort-noop', 'full-slice', 'full-mask', 'copy', 'slice', 'mask', 'index-vector', 'colsel', 'sel2d', 'rshift-vector', 'rshift-dict', 'rshift-table', 'lshift', 'inner', 'left', 'full',
          'sort', 'aggregate', 'window', 'T', 'Table()', 'setattr', 'setattr-indexed', 'arith', 'compare', 'fillna', 'cast', 'view', 'cols()', 'getitem-name']


def derive(w, parent, d):
    """Returns the derived object (or None when the derivation does not apply to this parent)."""
    pi = [k for k, (_, o, _) in enumerate(w.objs) if o is parent][0]
    isT = isinstance(parent, Table)
    if d == 'full-slice': return w.add('child', parent[0:len(parent)] if isT else parent[:])
    if d == 'full-mask': return w.add('child', parent[[True] * len(parent)])
    if d == 'rshift-empty-dict': return w.add('child', parent >> {}) if isT else None
    if d == 'sort-noop':
        # a sort that has nothing to reorder still returns a new object
        return w.add('child', parent.sort_by(parent.cols()[1]) if isT else Vector(sorted(parent), name=parent.name).sort_by())
    if d == 'copy': return w.add('child', parent.copy())
    if d == 'slice': return w.add('child', parent[0:2])
    if d == 'mask': return w.add('child', parent[[True, False, True]])
    if d == 'index-vector': return w.add('child', parent[Vector([2, 0])])
    if d == 'arith': return w.add('child', parent + 1)
    if d == 'compare': return w.add('child', parent == 2)
    if not isT:
        if d == 'fillna': return w.add('child', parent.fillna(0))
        if d == 'cast': return w.add('child', parent.cast(float))
        if d == 'sort': return w.add('child', parent.sort_by(reverse=True))
        if d == 'rshift-vector': return w.add('child', parent >> Vector([4, 5, 6], name='n'))
        if d == 'lshift': return w.add('child', parent << [9])
        if d == 'T': return w.add('child', parent.T)
        if d == 'Table()': return w.add('child', Table([parent]))
        return None
    if d == 'colsel': return w.add('child', parent['a', 'b'])
    if d == 'sel2d': return w.add('child', parent[0:2, ('b', 'a')])
    if d == 'rshift-vector':
        donor = w.add('donor', Vector([4, 5, 6], name='n'))
        return w.add('child', parent >> donor)
    if d == 'rshift-dict':
        donor = w.add('donor', Vector([4, 5, 6]))
        return w.add('child', parent >> {'n': donor, 'm': [7, 8, 9]})
    if d == 'rshift-table':
        donor = w.add('donor', Table({'n': [4, 5, 6]}))
        return w.add('child', parent >> donor)
    if d == 'lshift': return w.add('child', parent << list(range(len(parent.cols()))))
    if d in ('inner', 'left', 'full'):
        donor = w.add('donor', Table({'a': [1, 2, 4], 'y': [0, 0, 0]}))
        f = {'inner': parent.inner_join, 'left': parent.join, 'full': parent.full_join}[d]
        return w.add('child', f(donor, 'a', 'a', expect='many_to_many'))
    if d == 'sort': return w.add('child', parent.sort_by('a', reverse=True))
    if d == 'aggregate': return w.add('child', parent.aggregate(over='a', sum_over='b'))
    if d == 'window': return w.add('child', parent.window(over='a', sum_over='b'))
    if d == 'T': return w.add('child', parent.T)
    if d == 'Table()': return w.add('child', Table(list(parent.cols())))
    if d == 'setattr':
        donor = w.add('donor', Vector([4, 5, 6], name='dn'))
        parent.a = donor
        return donor
    if d == 'setattr-indexed':
        donor = w.add('donor', Vector([4, 5, 6], name='dn'))
        parent.a__0 = donor
        return donor
    if d == 'view': return w.add('view parent.a', parent.a, owner=pi)
    if d == 'cols()': return w.add('view parent.cols()[1]', parent.cols()[1], owner=pi)
    if d == 'getitem-name': return w.add("view parent['b']", parent['b'], owner=pi)
    return None


WRITES = ['int', 'neg-int', 'slice', 'mask', 'index-list', 'slice-seq', 'promote', 'none', 'cell-name', 'cell-index', 'row', 'column', 'region',
          'live-view', 'getitem-view', 'cols-view', 'setattr', 'rename']


def do_write(obj, wf, row):
    """Performs one write through handle obj.  Returns False when the form does not apply."""
    if isinstance(obj, Table):
        cols = obj.cols()
        if not cols or len(obj) == 0: return False
        r = row % len(obj)
        nm = obj.column_names()[0]
        if wf == 'cell-name':
            if not isinstance(nm, str): return False
            obj[r, nm] = 555
        elif wf == 'cell-index': obj[r, 0] = 555
        elif wf == 'row': obj[r] = [555 + j for j in range(len(cols))]
        elif wf == 'column': obj[:, 0] = [555 + i for i in range(len(obj))]
        elif wf == 'region':
            if len(obj) < 2 or len(cols) < 2: return False
            obj[0:2, 0:2] = Table({'u': [555, 556], 'w': [557, 558]})
        elif wf == 'live-view':
            if not isinstance(nm, str): return False
            getattr(obj, nm)[r] = 555
        elif wf == 'getitem-view':
            if not isinstance(nm, str): return False
            obj[nm][r] = 555
        elif wf == 'cols-view': obj.cols()[0][r] = 555
        elif wf == 'setattr':
            if not isinstance(nm, str): return False
            setattr(obj, nm, Vector([555 + i for i in range(len(obj))]))
        elif wf == 'rename':
            obj.rename_column(nm, 'renamed')
        else:
            return False
        return True
    n = len(obj)
    if n == 0: return False
    r = row % n
    if wf == 'int': obj[r] = 555
    elif wf == 'neg-int': obj[-1 - r] = 555
    elif wf == 'slice': obj[r:r + 1] = 555
    elif wf == 'slice-seq': obj[0:n] = [555 + i for i in range(n)]
    elif wf == 'mask': obj[[i == r for i in range(n)]] = 555
    elif wf == 'index-list': obj[[r]] = [555]
    elif wf == 'promote':
        if obj.schema() is None or obj.schema().kind is not int: return False
        obj[r] = 5.5
    elif wf == 'none': obj[r] = None
    elif wf == 'rename': obj.name = 'renamed'
    else:
        return False
    return True


def _iso_body(origin, di, ti, wi, row):
    w = World()
    parent = make_origin(w, origin)
    d = DERIVS[di]
    try:
        child = derive(w, parent, d)
    except Exception as e:
        return H.fail('derivation %s on origin %s raised %r' % (d, origin, e))
    if child is None:
        return None
    if child is parent and d not in ('setattr', 'setattr-indexed'):
        return H.fail('origin %s: derivation %s returned its operand itself instead of a new object' % (origin, d))
    # every table also exposes a live column view as a separate handle
    for k, (label, o, owner) in list(enumerate(w.objs)):
        if isinstance(o, Table) and len(o.cols()) and owner is None and label in ('parent', 'child'):
            w.add('view %s.cols()[0]' % label, o.cols()[0], owner=k)
    if ti >= len(w.objs):
        return None
    label, target, owner = w.objs[ti]
    before = w.snaps()
    wf = WRITES[wi]
    try:
        applied = do_write(target, wf, row)
        refused = None
    except Exception as e:
        # AliasError is the documented refusal; a type / index rejection (C08's business) must equally change nothing
        applied = True; refused = e
    if not applied:
        return None
    after = w.snaps()
    if refused is not None:
        for k in range(len(before)):
            if not H.snap_eq(before[k], after[k]):
                return H.fail('origin %s, derivation %s: refused write (%s through %s) changed %s' % (origin, d, wf, label, w.objs[k][0]))
        return True
    fam = w.family(ti)
    for k in range(len(before)):
        if k in fam: continue
        if not H.snap_eq(before[k], after[k]):
            return H.fail('origin %s, derivation %s: write %s through [%s] changed [%s]: %r -> %r' % (origin, d, wf, label, w.objs[k][0], before[k], after[k]))
    if H.snap_eq(before[ti], after[ti]):
        return H.fail('origin %s, derivation %s: write %s through [%s] had no effect' % (origin, d, wf, label))
    why = H.all_truthful(*[o for _, o, _ in w.objs])
    if why: return H.fail(why)
    return True


def h_iso(di: int, ti: int, wi: int, row: int) -> bool:
    """
    pre: 0 <= di < len(DERIVS) and 0 <= ti <= 8 and 0 <= wi < len(WRITES) and 0 <= row <= 2
    pre: H.fix(di=di)
    post: _
    """
    H.reset()
    if H.skip(locals()): return True
    r = H.concrete(_iso_body, H.cfg('origin'), H.among(list(range(len(DERIVS))), di), H.among(list(range(9)), ti),
                   H.among(list(range(len(WRITES))), wi), H.among([0, 1, 2], row))
    if r is False: return False
    if r is None: return True
    return H.ok()


# ------------------------------------------------------------------ the same isolation statement with symbolic cells, written value and row (traced, not native)
SYM_DERIVS = ['slice', 'copy', 'colsel', 'rshift-dict', 'left', 'sort', 'setattr', 'Table()', 'mask', 'sel2d', 'T', 'inner']


def h_iso_sym(a: int, b: int, c: int, d: int, i: int, x: int, side: int) -> bool:
    """
    pre: -2 <= i <= 1 and 0 <= side <= 3
    pre: H.fix(side=side)
    post: _
    """
    H.reset()
    if H.skip(locals()): return True
    deriv = H.cfg('deriv')
    val = {'int': x, 'float': 2.5, 'none': None}[H.cfg('valkind')]
    va = Vector([a, b], name='a'); vb = Vector([c, d], name='b')
    parent = Table([va, vb])
    donor = None
    if deriv == 'slice': child = parent[0:2]
    elif deriv == 'copy': child = parent.copy()
    elif deriv == 'colsel': child = parent['b', 'a']
    elif deriv == 'rshift-dict':
        donor = Vector([7, 8]); child = parent >> {'n': donor}
    elif deriv in ('left', 'inner'):
        # the join key is a concrete third column (symbolic keys would be realised at the hash boundary); the payload stays symbolic
        parent = Table([va, vb, Vector([1, 2], name='k')])
        partner = Table({'k': [2, 1], 'z': [c, d]})
        child = parent.join(partner, 'k', 'k') if deriv == 'left' else parent.inner_join(partner, 'k', 'k')
    elif deriv == 'sort': child = parent.sort_by('a', reverse=True)
    elif deriv == 'setattr':
        donor = Vector([7, 8], name='dn'); parent.b = donor; child = donor
    elif deriv == 'Table()': child = Table(list(parent.cols()))
    elif deriv == 'mask': child = parent[[True, True]]
    elif deriv == 'sel2d': child = parent[0:2, ('a', 'b')]
    elif deriv == 'T': child = parent.T
    else: raise ValueError(deriv)
    objs = [('va', va), ('vb', vb), ('parent', parent), ('child', child)] + ([('donor', donor)] if donor is not None and donor is not child else [])
    before = [H.snap(o) for _, o in objs]
    target = [va, parent, child, donor][side]
    if target is None: return True
    ti = [k for k, (_, o) in enumerate(objs) if o is target][0]
    try:
        if isinstance(target, Table):
            if len(target) == 0 or len(target.cols()) == 0: return True
            target.cols()[0][i] = val
        else:
            target[i] = val
        raised = False
    except Exception:
        raised = True
    after = [H.snap(o) for _, o in objs]
    for k in range(len(objs)):
        if k == ti and not raised: continue
        if not H.snap_eq(before[k], after[k]):
            return H.fail('derivation %s: write of %r at %r through [%s] %s changed [%s]: %r -> %r' % (deriv, val, i, objs[ti][0], 'was refused but' if raised else '', objs[k][0], before[k], after[k]))
    why = H.all_truthful(*[o for _, o in objs])
    if why: return H.fail(why)
    return H.ok()


# ------------------------------------------------------------------ read-only operations are pure
def _pure_ops():
    import operator as op
    ops = []
    for name, f in [('add', op.add), ('sub', op.sub), ('mul', op.mul), ('truediv', op.truediv), ('floordiv', op.floordiv), ('mod', op.mod), ('pow', op.pow),
                    ('eq', op.eq), ('ne', op.ne), ('lt', op.lt), ('ge', op.ge), ('and', op.and_), ('or', op.or_)]:
        ops.append(('v %s v' % name, lambda x, f=f: f(x['v'], x['w'])))
        ops.append(('v %s scalar' % name, lambda x, f=f: f(x['v'], 2)))
        ops.append(('scalar %s v' % name, lambda x, f=f: f(2, x['v'])))
        ops.append(('v %s list' % name, lambda x, f=f: f(x['v'], [1, 2, 3])))
        ops.append(('v %s short (fails)' % name, lambda x, f=f: f(x['v'], Vector([1, 2]))))
        ops.append(('t %s scalar' % name, lambda x, f=f: f(x['t'], 2)))
        ops.append(('t %s t' % name, lambda x, f=f: f(x['t'], x['u'])))
    ops += [
        ('neg', lambda x: -x['v']), ('abs', lambda x: abs(x['v'])), ('invert', lambda x: ~x['v']),
        ('v[i]', lambda x: x['v'][1]), ('v[slice]', lambda x: x['v'][::-1]), ('v[mask]', lambda x: x['v'][[True, False, True]]), ('v[bad mask] (fails)', lambda x: x['v'][[True]]),
        ('v[idx]', lambda x: x['v'][[0, 2]]), ('v[9] (fails)', lambda x: x['v'][9]), ('v[v] self', lambda x: x['v'][x['v'] > 1]),
        ('t[i]', lambda x: tuple(x['t'][1])), ('t[slice]', lambda x: x['t'][1:]), ('t[mask]', lambda x: x['t'][[True, False, True]]),
        ("t['a']", lambda x: list(x['t']['a'])), ("t['a','b']", lambda x: x['t']['a', 'b']), ("t['zz'] (fails)", lambda x: x['t']['zz']),
        ("t['a','zz'] (fails)", lambda x: x['t']['a', 'zz']), ('t[1:, names]', lambda x: x['t'][1:, ('b', 'a')]), ('t[r,c]', lambda x: x['t'][1, 'a']),
        ('t == t', lambda x: x['t'] == x['t']), ('v == v', lambda x: x['v'] == x['v']),
        ('inner_join', lambda x: x['t'].inner_join(x['u'], 'a', 'a', expect='many_to_many')), ('join', lambda x: x['t'].join(x['u'], 'a', 'a')),
        ('full_join', lambda x: x['t'].full_join(x['u'], 'a', 'a')), ('join bad expect (fails)', lambda x: x['t'].join(x['u'], 'a', 'a', expect='nope')),
        ('join missing col (fails)', lambda x: x['t'].join(x['u'], 'zz', 'a')), ('join 1:1 violated (fails)', lambda x: x['d'].inner_join(x['d'], 'a', 'a', expect='one_to_one')),
        ('join by vector', lambda x: x['t'].join(x['u'], x['t'].a, x['u'].a)), ('join wrong-length key (fails)', lambda x: x['t'].join(x['u'], Vector([1]), 'a')),
        ('aggregate', lambda x: x['d'].aggregate(over='a', sum_over='b', mean_over='b', count_over='b', apply={'n': ('b', len)})),
        ('aggregate ext key', lambda x: x['t'].aggregate(over=x['w'], max_over='b')), ('aggregate bad (fails)', lambda x: x['t'].aggregate(over=Vector([1]), sum_over='b')),
        ('window', lambda x: x['d'].window(over='a', sum_over='b', stdev_over='b')), ('sort_by', lambda x: x['t'].sort_by(['b', 'a'], reverse=[True, False])),
        ('sort_by vector', lambda x: x['t'].sort_by(x['t'].b, reverse=True)), ('sort_by missing (fails)', lambda x: x['t'].sort_by('zz')),
        ('v.sort_by', lambda x: x['v'].sort_by(reverse=True)), ('repr t', lambda x: repr(x['t'])), ('repr v', lambda x: repr(x['v'])), ('str', lambda x: str(x['t'])),
        ('fingerprint', lambda x: (x['t'].fingerprint(), x['v'].fingerprint())), ('iter', lambda x: [tuple(r) for r in x['t']]), ('dir', lambda x: dir(x['t'])),
        ('peek', lambda x: x['t'].peek()), ('isna', lambda x: x['n'].isna()), ('dropna', lambda x: x['n'].dropna()), ('fillna', lambda x: x['n'].fillna(0)),
        ('fillna promote', lambda x: x['n'].fillna(1.5)), ('cast', lambda x: x['v'].cast(str)), ('cast bad (fails)', lambda x: Vector(['x']).cast(int)), ('unique', lambda x: x['v'].unique()),
        ('sum/mean/min/max/stdev', lambda x: (x['n'].sum(), x['n'].mean(), x['n'].min(), x['n'].max(), x['n'].stdev())), ('any/all', lambda x: (x['v'].any(), x['v'].all())),
        ('T', lambda x: x['t'].T), ('copy', lambda x: x['t'].copy()), ('to_object', lambda x: x['v'].to_object()), ('>>', lambda x: x['t'] >> x['v']),
        ('>> dict', lambda x: x['t'] >> {'z': x['v']}), ('<<', lambda x: x['t'] << [0, 0]), ('v << v', lambda x: x['v'] << x['w']), ('Table(cols)', lambda x: Table([x['v'], x['w']])),
        ('matmul', lambda x: x['v'] @ x['w']), ('column_names', lambda x: x['t'].column_names()), ('schema', lambda x: x['v'].schema()), ('len/shape', lambda x: (len(x['t']), x['t'].shape)),
        ('argsort', lambda x: x['v'].argsort()), ('pluck', lambda x: Vector(['ab', 'cd']).pluck(0)), ('method proxy', lambda x: Vector(['ab', None]).upper()),
        ('getattr col', lambda x: list(x['t'].a)), ('row attr', lambda x: x['t'][0].a), ('isinstance', lambda x: x['v'].isinstance(int)),
    ]
    return ops


PURE = _pure_ops()


def _pure_body(k):
    name, f = PURE[k]
    v = Vector([3, 1, 2], name='v'); wv = Vector([5, 6, 7], name='w'); nv = Vector([1, None, 3], name='n')
    t = Table({'a': [1, 2, 3], 'b': [4, 5, 6]}); u = Table({'a': [1, 2, 2], 'c': [7, 8, 9]}); d = Table({'a': [1, 1, 2], 'b': [4, None, 6]})
    objs = {'v': v, 'w': wv, 'n': nv, 't': t, 'u': u, 'd': d}
    views = {'t.a': t.a, 'u.c': u.cols()[1]}
    before = {k_: H.snap(o) for k_, o in list(objs.items()) + list(views.items())}
    fps = {k_: o.fingerprint() for k_, o in objs.items()}
    try:
        r = f(objs)
        outcome = 'returned'
    except Exception as e:
        r = None
        outcome = 'raised %r' % (e,)
    for k_, o in list(objs.items()) + list(views.items()):
        if not H.snap_eq(before[k_], H.snap(o)):
            return H.fail('read-only operation [%s] (%s) changed operand %s: %r -> %r' % (name, outcome, k_, before[k_], H.snap(o)))
    for k_, o in objs.items():
        if o.fingerprint() != fps[k_]: return H.fail('read-only operation [%s] changed the fingerprint of %s' % (name, k_))
    if 'fails' in name and outcome == 'returned' and 'short' not in name:
        pass
    # the result is independent: writing into it does not reach the operands
    if isinstance(r, (Vector, Table)):
        try:
            if isinstance(r, Table):
                if len(r) and len(r.cols()): r[0, 0] = r[0, 0]
                if len(r) and len(r.cols()): r.cols()[0][0] = None
            elif len(r):
                r[0] = None
        except AliasError:
            pass
        except Exception:
            pass
        for k_, o in list(objs.items()) + list(views.items()):
            if not H.snap_eq(before[k_], H.snap(o)):
                return H.fail('writing into the result of [%s] changed operand %s' % (name, k_))
    return True


def h_pure(k: int) -> bool:
    """
    pre: H.cfg('lo') <= k < H.cfg('hi')
    post: _
    """
    H.reset()
    if H.skip(locals()): return True
    if not H.concrete(_pure_body, H.among(list(range(len(PURE))), k)): return False
    return H.ok()


# ------------------------------------------------------------------ shared caller tuple: refuse or stay local
def _refuse_body(wi, row, which, copy_first):
    tup = (1, 2, 3)
    a = Vector(tup, name='a'); b = Vector(tup, name='b')
    objs = [a, b]
    if copy_first:
        c = a.copy(); objs.append(c)
        target = c
    else:
        target = objs[which]
    before = [H.snap(o) for o in objs]
    try:
        applied = do_write(target, WRITES[wi], row)
        refused = False
    except AliasError:
        applied = True; refused = True
    if not applied: return None
    after = [H.snap(o) for o in objs]
    if tup != (1, 2, 3): return H.fail('caller tuple changed')
    if refused:
        if copy_first: return H.fail('a copy of a sharing vector is not writable')
        for x, y in zip(before, after):
            if not H.snap_eq(x, y): return H.fail('refused write changed something')
        # after copying, the copy is writable and isolated
        return True
    for k, (x, y) in enumerate(zip(before, after)):
        if objs[k] is target: continue
        if not H.snap_eq(x, y): return H.fail('write through one vector over a shared tuple changed the other: %r -> %r' % (x, y))
    return True


def h_refuse(wi: int, row: int, which: int, copy_first: bool) -> bool:
    """
    pre: 0 <= wi < 9 and 0 <= row <= 2 and 0 <= which <= 1
    post: _
    """
    H.reset()
    if H.skip(locals()): return True
    r = H.concrete(_refuse_body, H.among(list(range(9)), wi), H.among([0, 1, 2], row), H.among([0, 1], which), True if copy_first else False)
    if r is False: return False
    if r is None: return True
    return H.ok()


# ------------------------------------------------------------------ bounded histories
HOPS = ['derive-copy', 'derive-slice', 'derive-colsel', 'derive-rshift', 'derive-join', 'derive-sort', 'derive-view', 'setattr-donor',
        'write-cell', 'write-view', 'write-vector', 'write-donor', 'write-promote', 'rename']


def _hist_body(ops, rows):
    w = World()
    va = w.add('va', Vector([1, 2, 3], name='a')); vb = w.add('vb', Vector([10, 20, 30], name='b'))
    t = w.add('t0', va >> vb)
    cur = t
    donor = None
    for step, (op, row) in enumerate(zip(ops, rows)):
        before = w.snaps()
        written = None
        try:
            ci = [k for k, (_, o, _) in enumerate(w.objs) if o is cur][0]
            if op.startswith('derive-') and op != 'derive-view':
                prev = cur
            if op == 'derive-copy': cur = w.add('t%d' % (step + 1), cur.copy())
            elif op == 'derive-slice': cur = w.add('t%d' % (step + 1), cur[0:3])
            elif op == 'derive-colsel': cur = w.add('t%d' % (step + 1), cur[tuple(n for n in cur.column_names()[:2])])
            elif op == 'derive-rshift': cur = w.add('t%d' % (step + 1), cur >> Vector([7, 8, 9], name='x%d' % step))
            elif op == 'derive-join': cur = w.add('t%d' % (step + 1), cur.join(Table({cur.column_names()[0]: [1, 2, 3], 'j%d' % step: [0, 0, 0]}), cur.column_names()[0], cur.column_names()[0]))
            elif op == 'derive-sort': cur = w.add('t%d' % (step + 1), cur.sort_by(cur.column_names()[0]))
            elif op == 'derive-view': w.add('view%d' % step, cur.cols()[0], owner=ci)
            if op.startswith('derive-') and op != 'derive-view' and cur is prev:
                return H.fail('history %r: step %d (%s) returned its operand itself instead of a new table' % (ops, step, op))
            elif op == 'setattr-donor':
                donor = w.add('donor%d' % step, Vector([4, 5, 6], name='dn'))
                setattr(cur, cur.column_names()[0], donor)
                written = ci
            elif op == 'write-cell': cur[row, 0] = 900 + step; written = ci
            elif op == 'write-view': cur.cols()[0][row] = 800 + step; written = ci
            elif op == 'write-vector': va[row] = 700 + step; written = 0
            elif op == 'write-donor':
                if donor is None: return None
                donor[row] = 600 + step; written = [k for k, (_, o, _) in enumerate(w.objs) if o is donor][0]
            elif op == 'write-promote': cur.cols()[0][row] = 0.5; written = ci
            elif op == 'rename': cur.rename_column(cur.column_names()[0], 'rn%d' % step); written = ci
        except Exception:
            # refused (AliasError) or rejected for another reason (e.g. a float join key): nothing may have changed
            after = w.snaps()
            for k in range(len(before)):
                if not H.snap_eq(before[k], after[k]): return H.fail('history %r: refused step %s changed %s' % (ops, op, w.objs[k][0]))
            continue
        after = w.snaps()
        fam = w.family(written) if written is not None else set()
        for k in range(len(before)):
            if k in fam: continue
            if not H.snap_eq(before[k], after[k]):
                return H.fail('history %r: step %d (%s) changed [%s]: %r -> %r' % (ops, step, op, w.objs[k][0], before[k], after[k]))
    return True


def h_hist(o0: int, o1: int, o2: int, r0: int, r1: int, r2: int) -> bool:
    """
    pre: 0 <= o0 < len(HOPS) and 0 <= o1 < len(HOPS) and 0 <= o2 < len(HOPS) and 0 <= r0 <= 2 and 0 <= r1 <= 2 and 0 <= r2 <= 2
    pre: H.fix(o0=o0)
    pre: H.cfg('H', 2) >= 3 or (o2 == 0 and r2 == 0)
    post: _
    """
    H.reset()
    if H.skip(locals()): return True
    depth = H.cfg('H', 2)
    RO = list(range(len(HOPS)))
    ops = [HOPS[H.among(RO, o)] for o in (o0, o1, o2)][:depth]
    rows = [H.among([0, 1, 2], r) for r in (r0, r1, r2)][:depth]
    r = H.concrete(_hist_body, ops, rows)
    if r is False: return False
    if r is None: return True
    return H.ok()


def obligations(tier):
    q = tier == 'quick'
    obs = []
    for origin in ORIGINS:
        for di in range(len(DERIVS)):
            if origin.startswith('vector') and DERIVS[di] in ('rshift-empty-dict', 'colsel', 'sel2d', 'rshift-dict', 'rshift-table', 'inner', 'left', 'full', 'aggregate', 'window', 'setattr',
                                                               'setattr-indexed', 'view', 'cols()', 'getitem-name'):
                continue
            if not origin.startswith('vector') and DERIVS[di] in ('fillna', 'cast'):
                continue
            obs.append(dict(name='iso[%s,%s]' % (origin, DERIVS[di]), fn='h_iso', config={'origin': origin, 'di': di}, budget=60 if q else 200,
                            bounds='every live handle (<= 9) x 18 write forms x 3 rows', smoke=[[di, 2, 8, 0], [di, 0, 0, 1]]))
    for deriv in SYM_DERIVS:
        for side in range(4):
            if side == 3 and deriv not in ('rshift-dict', 'setattr'):
                continue
            if q and side == 0 and deriv not in ('Table()', 'slice'):
                continue
            for vk in ('int', 'float', 'none'):
                obs.append(dict(name='iso-symbolic[%s,side=%d,%s]' % (deriv, side, vk), fn='h_iso_sym', config={'deriv': deriv, 'side': side, 'valkind': vk}, budget=90 if q else 400,
                                bounds='2x2 table of unbounded symbolic ints; the write (symbolic row in [-2,1]; value: unbounded symbolic int / 2.5 (promotes) / None (makes nullable)) goes through '
                                       'input vector / parent / child / donor; symbolically executed (not native)', smoke=[[1, 2, 3, 4, 0, 9, side], [1, 1, 3, 4, -1, 2, side]]))
    G = 12
    for lo in range(0, len(PURE), G):
        hi = min(len(PURE), lo + G)
        obs.append(dict(name='pure[%d..%d]' % (lo, hi - 1), fn='h_pure', config={'lo': lo, 'hi': hi}, budget=60,
                        bounds='read-only operations %s ... %s: operands (3 vectors, 3 tables, 2 live views) keep contents, names, dtypes and fingerprints, also when the call fails; '
                               'writing into the result does not reach them' % (PURE[lo][0], PURE[hi - 1][0]), smoke=[[lo]]))
    obs.append(dict(name='refuse', fn='h_refuse', config={}, budget=60, bounds='two vectors over one caller tuple: 9 write forms x 3 rows x either vector, with and without copying first',
                    smoke=[[0, 0, 0, False], [0, 0, 0, True]]))
    for o0 in range(len(HOPS)):
        if HOPS[o0] == 'write-donor':
            continue          # no donor exists before the first step: the job would be vacuous
        obs.append(dict(name='hist[H=2,first=%s]' % HOPS[o0], fn='h_hist', config={'o0': o0, 'H': 2}, budget=90 if q else 300,
                        bounds='first operation fixed per job, every second operation of the 14-operation alphabet, every row', smoke=[[o0, 8, 0, 0, 1, 0]]))
        if not q:
            obs.append(dict(name='hist[H=3,first=%s]' % HOPS[o0], fn='h_hist', config={'o0': o0, 'H': 3}, budget=900,
                            bounds='depth 3: first fixed per job, every second and third operation, every row', smoke=[[o0, 8, 11, 0, 1, 2]]))
    return obs

"""C16 - fingerprints track content: never stale, and they notice every change."""
from vp import h as H
from vp.h import Vector, Table

H.standard_env()
H.install_model_hash()
ASSUMPTIONS = [
    'hash() as seen from serif.vector is replaced by model_hash: for int the documented CPython rule sign(x)*(|x| mod 2^61-1) with -1 -> -2 (so that z3 can reason about the '
    'rolling hash over symbolic ints), every other type goes to the real hash(); the model is compared with the real hash() on a boundary grid at the start of every run',
    'sensitivity: vectors of length <= 3 (quick) / 4 (thorough), int elements with |x| < 2^64, position symbolic; str / float / None elements through concrete representatives',
    '"unequal value" means old != new and hash(old) != hash(new) (pairs hash() cannot tell apart are exempt as the statement says)',
    'coherence histories: depth 2 (quick) / 3 (thorough) over a 16-step alphabet, positions and step order chosen by the solver, values concrete',
]
P = H.P61


def engine_b(tier):
    import serif.vector as sv
    Pm, B = getattr(sv.Vector, '_FP_P', None), getattr(sv.Vector, '_FP_B', None)
    if Pm is None or B is None:
        Pm, B = (1 << 61) - 1, 3          # constants not exposed under these names any more: nothing to check here
    try:
        inv = pow(B, -1, Pm)
        base_ok = (B * inv) % Pm == 1
    except ValueError:
        base_ok = False
    if not base_ok:
        return [{'name': 'base-invertible', 'status': 'VIOLATION', 'why': ['the rolling-hash base %d is not invertible modulo %d: positions can cancel' % (B, Pm)], 'replay': '', 'solver_checks': 0, 'solver_s': 0}]
    n, bad = H.check_model_hash()
    if bad:
        return [{'name': 'model-hash-grid', 'status': 'ENGINE_ERROR', 'message': 'int hash model disagrees with hash() on %r' % (bad[:5],), 'solver_checks': 0, 'solver_s': 0}]
    return [{'name': 'model-hash-grid', 'status': 'VALIDATED', 'bounds': '%d boundary values (0, +-1, +-2, +-2^31, +-2^63, +-2^64, +-10^30, k*(2^61-1)+d)' % n, 'solver_checks': 0, 'solver_s': 0}]


def mh(x):
    return H.model_hash(x)


def h_sensitive(a: int, b: int, c: int, d: int, y: int, i: int) -> bool:
    """
    pre: 0 <= i < H.cfg('n')
    pre: all(-(1 << H.cfg('bits', 64)) < e < (1 << H.cfg('bits', 64)) for e in (a, b, c, d, y))
    pre: all(e == 0 for e in [a, b, c, d][H.cfg('n'):])
    post: _
    """
    H.reset()
    if H.skip(locals()): return True
    n = H.cfg('n')
    vals = [a, b, c, d][:n]
    old = vals[0]
    for k in range(n):
        if i == k: old = vals[k]
    if mh(old) == mh(y): return True          # hash() cannot tell them apart: exempt (this includes old == y)
    v = Vector(vals)
    t = Table([v, Vector(list(range(n)))])
    f0 = v.fingerprint(); g0 = t.fingerprint()
    mode = H.cfg('mode')
    if mode == 'vector':
        v[i] = y
        if v.fingerprint() == f0: return H.fail('changing element %d of %r from %r to %r left the fingerprint at %r' % (i, vals, old, y, f0))
    elif mode == 'table-cell':
        t[i, 0] = y
        if t.fingerprint() == g0: return H.fail('table fingerprint unchanged after cell write %r -> %r' % (old, y))
    else:
        t.cols()[0][i] = y
        if t.fingerprint() == g0: return H.fail('table fingerprint unchanged after writing %r -> %r through a live column view' % (old, y))
    return H.ok()


def h_order(a: int, b: int, c: int, i: int, j: int) -> bool:
    """
    pre: 0 <= i < j <= 2
    pre: H.fix(i=i, j=j)
    pre: all(-(1 << H.cfg('bits', 64)) < e < (1 << H.cfg('bits', 64)) for e in (a, b, c))
    post: _
    """
    H.reset()
    if H.skip(locals()): return True
    vals = [a, b, c]
    x = vals[0]; z = vals[2]
    for k in range(3):
        if i == k: x = vals[k]
        if j == k: z = vals[k]
    if mh(x) == mh(z): return True
    sw = list(vals)
    for k in range(3):
        if i == k: sw[k] = z
        if j == k: sw[k] = x
    if Vector(vals).fingerprint() == Vector(sw).fingerprint(): return H.fail('%r and %r (elements %d,%d swapped) have the same fingerprint' % (vals, sw, i, j))
    return H.ok()


REPS = [None, 0, 1, -1, 2.5, float('nan'), 'a', '', 'b', True, (1, 2), 10 ** 30, -2, 1.0, (2, 1), [1, 2], [2, 1], (1, (2, 3)), (1, (3, 2))]


def _rep_body(i, j, pos):
    old, new = REPS[i], REPS[j]
    try:
        same_hash = (old is new) or (old == new and hash(old) == hash(new)) or (hash(old) == hash(new))
    except TypeError:
        return None
    if same_hash: return None
    base = [7, 'k', 3.5]
    vals = list(base); vals[pos] = old
    v = Vector(vals, dtype=object)
    t = Table([Vector(vals, dtype=object, name='o'), Vector([1, 2, 3], name='p')])
    f0 = v.fingerprint(); g0 = t.fingerprint()
    v[pos] = new; t.cols()[0][pos] = new
    # the fixed sentinels of None / NaN, and values congruent mod 2^61-1, are the only possible coincidences
    if v.fingerprint() == f0 or t.fingerprint() == g0:
        return H.fail('replacing %r by %r at %d left a fingerprint unchanged' % (old, new, pos))
    if v.fingerprint() != Vector(list(v), dtype=object).fingerprint(): return H.fail('stale after write')
    return True


def h_reps(i: int, j: int, pos: int) -> bool:
    """
    pre: 0 <= i < len(REPS) and 0 <= j < len(REPS) and 0 <= pos <= 2
    post: _
    """
    H.reset()
    if H.skip(locals()): return True
    R = list(range(len(REPS)))
    r = H.concrete(_rep_body, H.among(R, i), H.among(R, j), H.among([0, 1, 2], pos))
    if r is False: return False
    if r is None: return True
    return H.ok()


# ------------------------------------------------------------------ coherence over histories
STEPS = ['fp(v)', 'fp(t)', 'fp(view)', 'cell store-back', 'same-value write', 'v two writes', 'view two writes', 'v[i]=x', 'v[slice]=seq', 'v[mask]=x', 'v[idx]=seq', 'v[idx dup]=seq', 'v[vec dup]=seq', 'v promote', 'v[i]=None', 't[i,j]=x', 't[i]=row', 't[:,j]=col', 'view[i]=x',
         't.a=vec', 't region', 'read-only', 'failed write', 'rename', 'derive v[slice]', 'derive v.copy', 'derive v[mask]', 'derive t[rows]', 'derive t[cols]', 'derive view.copy']


def rebuild(x):
    if isinstance(x, Table):
        return Table([Vector(list(c), name=c.name) for c in x.cols()])
    return Vector(list(x))


class EagerReuseId:
    """id() for storage tuples as CPython may legally behave: a new tuple receives the identity of the most recently freed one
    whenever there is one (the opposite extreme of the never-reusing stub used elsewhere).  A fingerprint memo keyed on
    identity instead of content is stale under this schedule."""
    def __init__(self):
        self.known = []; self.next = 1 << 30

    def __call__(self, obj):
        import sys
        if type(obj) is not tuple:
            return id(obj)
        for ent in self.known:
            if ent[0] is obj:
                return ent[1]
        live = set(ent[1] for ent in self.known if sys.getrefcount(ent[0]) > 2 or ent[0] == ())
        dead = [ent[1] for ent in self.known if ent[1] not in live]
        if dead:
            mid = dead[-1]
        else:
            self.next += 8; mid = self.next
        self.known.append([obj, mid])
        return mid


def _coh_body(steps, poss, view_first=False, skip_mid=False):
    import serif.vector as sv, serif.table as stb
    saved = [(m_, m_.__dict__.get('id')) for m_ in (sv, stb)]
    model = EagerReuseId()
    sv.id = model; stb.id = model
    try:
        return _coh_body2(steps, poss, view_first, skip_mid)
    finally:
        for m_, old in saved:
            if old is None:
                m_.__dict__.pop('id', None)
            else:
                m_.id = old


def _coh_body2(steps, poss, view_first=False, skip_mid=False):
    v = Vector([1, 2, 3], name='v')
    t = Table({'a': [4, 5, 6], 'b': [7, 8, 9]})
    view = t.cols()[1]
    live = {'v': v, 't': t, 'view(t.b)': view}
    for k, (st, p) in enumerate(zip(steps, poss)):
        before = {nm: o.fingerprint() for nm, o in live.items()} if (st in ('read-only', 'fp(v)', 'fp(t)', 'fp(view)', 'failed write', 'rename') or st.startswith('derive')) else None
        try:
            if st == 'fp(v)': v.fingerprint()
            elif st == 'fp(t)': t.fingerprint()
            elif st == 'fp(view)': view.fingerprint()
            elif st == 'cell store-back':
                # an object vector holding a list cell: the cell is mutated in place and then stored back through a write
                ov = live.get('objvec')
                if ov is None:
                    ov = live['objvec'] = Vector([[1, 2], 'k', 3.5], dtype=object)
                    ov.fingerprint()
                cell = ov[0]; cell.append(50 + k); ov[0] = cell
            elif st == 'same-value write':
                v[p] = v[p]; t[p, 0] = t[p, 0]      # writing the value that is already there: contents unchanged, fingerprint unchanged
            elif st == 'v two writes':
                v[p] = 110 + k; v[(p + 1) % 3] = 120 + k          # two storage swaps with no fingerprint() call in between
            elif st == 'view two writes':
                view[p] = 130 + k; view[(p + 2) % 3] = 140 + k
            elif st == 'v[i]=x': v[p] = 100 + k
            elif st == 'v[slice]=seq': v[p:p + 2] = [200 + k, 201 + k][:len(range(*slice(p, p + 2).indices(3)))]
            elif st == 'v[mask]=x': v[[i == p for i in range(3)]] = 300 + k
            elif st == 'v[idx]=seq': v[[p, (p + 1) % 3]] = [400 + k, 401 + k]
            elif st == 'v[idx dup]=seq': v[[p, p]] = [410 + k, 411 + k]
            elif st == 'v[vec dup]=seq': v[Vector([p, (p + 1) % 3, p])] = [420 + k, 421 + k, 422 + k]
            elif st == 'v promote': v[p] = 0.5 + k
            elif st == 'v[i]=None': v[p] = None
            elif st == 't[i,j]=x': t[p, p % 2] = 500 + k
            elif st == 't[i]=row': t[p] = [600 + k, 601 + k]
            elif st == 't[:,j]=col': t[:, p % 2] = [700 + k, 701 + k, 702 + k]
            elif st == 'view[i]=x': view[p] = 800 + k
            elif st == 't.a=vec': t.a = Vector([900 + k, 901 + k, 902 + k])
            elif st == 't region': t[0:2, 0:2] = Table({'u': [10 + k, 11 + k], 'w': [12 + k, 13 + k]})
            elif st == 'read-only':
                _ = (v + 1, v == 2, v[0:2], t.sort_by('a'), t['a', 'b'], repr(t), repr(v), t.aggregate(over='a', sum_over='b'), list(t), v.sort_by(), t.inner_join(t, 'a', 'a', expect='many_to_many'))
            elif st == 'failed write':
                try:
                    v[[0, 7]] = [1, 2]
                except Exception:
                    pass
                try:
                    t[0] = [1]
                except Exception:
                    pass
            elif st == 'rename':
                t.rename_column('b', 'b'); v.name = 'w%d' % k
            elif st == 'derive v[slice]': live['v[%d:] @%d' % (p, k)] = v[p:]
            elif st == 'derive v.copy': live['v.copy @%d' % k] = v.copy()
            elif st == 'derive v[mask]': live['v[mask] @%d' % k] = v[[i != p for i in range(3)]]
            elif st == 'derive t[rows]': live['t[%d:] @%d' % (p, k)] = t[p:]
            elif st == 'derive t[cols]': live['t[b,a] @%d' % k] = t['b', 'a']
            elif st == 'derive view.copy': live['view.copy @%d' % k] = view.copy()
        except Exception as e:
            return H.fail('history %r: step %s raised %r' % (steps, st, e))
        if st == 't.a=vec':
            pass
        if skip_mid and k < len(steps) - 1:
            continue          # the statement holds 'whether or not it had been called, and cached, earlier': sometimes nothing is asked until the end
        # every object is asked twice, in both orders (a table asked after its column view may behave differently from one asked before)
        order = list(live.items())
        if view_first:
            order = list(reversed(order))       # the column view (and derived objects) are asked before the table
        for nm, o in order + list(reversed(order)):
            fresh = rebuild(o).fingerprint()
            got = o.fingerprint()
            if got != fresh:
                return H.fail('history %r, after step %d (%s, pos %d): fingerprint of %s is stale (%r, a fresh object with the same contents %r gives %r)'
                              % (steps, k, st, p, nm, got, [list(c) for c in o.cols()] if isinstance(o, Table) else list(o), fresh))
            if before is not None and nm in before and got != before[nm]:
                return H.fail('history %r: read-only step %s changed the fingerprint of %s' % (steps, st, nm))
    return True


def h_coherent(s0: int, s1: int, s2: int, p0: int, p1: int, p2: int, view_first: bool, skip_mid: bool) -> bool:
    """
    pre: 0 <= s0 < len(STEPS) and 0 <= s1 < len(STEPS) and 0 <= s2 < len(STEPS) and 0 <= p0 <= 2 and 0 <= p1 <= 2 and 0 <= p2 <= 2
    pre: H.fix(s0=s0)
    pre: H.cfg('H', 2) >= 3 or (s2 == 0 and p2 == 0)
    pre: H.cfg('H', 2) < 3 or (p1 == 1 and p2 == 2)
    post: _
    """
    H.reset()
    if H.skip(locals()): return True
    depth = H.cfg('H', 2)
    RS = list(range(len(STEPS)))
    steps = [STEPS[H.among(RS, s)] for s in (s0, s1, s2)][:depth]
    poss = [H.among([0, 1, 2], p) for p in (p0, p1, p2)][:depth]
    if not H.concrete(_coh_body, steps, poss, True if view_first else False, True if skip_mid else False): return False
    return H.ok()


def obligations(tier):
    q = tier == 'quick'
    obs = []
    for bits in (31, 64):
        for n in ((1, 2, 3) if q else (1, 2, 3, 4)):
            for mode in ('vector', 'table-cell', 'table-view'):
                if mode != 'vector' and n != 2:
                    continue
                wide_hard = (bits == 64 and n >= 2) or (bits == 31 and (n >= 3 or mode != 'vector'))
                if wide_hard and q and mode != 'vector' and bits == 64:
                    continue
                obs.append(dict(name='sensitive[%s,n=%d,|x|<2^%d]' % (mode, n, bits), fn='h_sensitive', config={'n': n, 'mode': mode, 'bits': bits},
                                budget=(30 if wide_hard else 100) if q else 600,
                                bounds='%d int elements with |x| < 2^%d, new value in the same range with a different (modelled) hash, position symbolic%s'
                                % (n, bits, ' (bug hunting: z3 does not finish the modular unsat proof here; longer vectors follow from the step lemma + invertibility of the base, see DESIGN.md C16)' if wide_hard else ''),
                                smoke=[[5, 0, 0, 0, 9, 0]] if n == 1 else [[1, 2, 3 if n > 2 else 0, 4 if n > 3 else 0, 9, 1]]))
        for (i, j) in ((0, 1), (0, 2), (1, 2)):
            if bits == 64 and q and (i, j) != (0, 2):
                continue
            obs.append(dict(name='order[swap %d,%d,|x|<2^%d]' % (i, j, bits), fn='h_order', config={'bits': bits, 'i': i, 'j': j}, budget=30 if q else 600,
                            bounds='3 int elements |x| < 2^%d, positions %d and %d holding unequal-hash values swapped' % (bits, i, j), smoke=[[1, 2, 3, i, j]]))
    obs.append(dict(name='sensitive[representatives]', fn='h_reps', config={}, budget=90, bounds='every ordered pair of 19 representatives (incl. sequence cells that differ only in item order) (None, ints, floats incl. NaN, str, bool, tuple, big int) at every position of a 3-element object vector and table column',
                    smoke=[[0, 1, 0], [6, 8, 2]]))
    for s0 in range(len(STEPS)):
        obs.append(dict(name='coherent[H=2,first=%s]' % STEPS[s0], fn='h_coherent', config={'s0': s0, 'H': 2}, budget=90 if q else 300,
                        bounds='first step fixed per job, every second step of the 30-step alphabet, every position; vector, table, a live column view and derived objects compared with freshly built objects after every step, asked in both orders (solver-chosen which first)',
                        smoke=[[s0, 0, 0, 1, 1, 0, False, False], [s0, 14, 0, 0, 2, 0, True, True]]))
        if not q:
            obs.append(dict(name='coherent[H=3,first=%s]' % STEPS[s0], fn='h_coherent', config={'s0': s0, 'H': 3}, budget=1200,
                            bounds='depth 3: first step fixed per job, every second and third step, every position of the first step (later positions fixed)', smoke=[[s0, 1, 14, 1, 1, 2, True, True]]))
    return obs

"""C09 - inner join returns exactly the key-equal row pairs, in left-major order."""
from vp import h as H
from harness import joinlib
from harness.joinlib import h_join, join_pre

H.standard_env()
ASSUMPTIONS = [
    'rows per table <= 2 (quick) / 3 (thorough); 1-3 key columns (the third repeats the first column\'s equality pattern in another type); key cells are in canonical form: z3 enumerates exactly one representative per '
    'equality pattern (set partition) of the key cells, one class optionally None - sound because the join inspects keys only through ==/hash; '
    'the unreduced domain {None,0,1,2}^n is run at 2x2 in the thorough tier as a hedge',
    'payload cells are unbounded symbolic ints; a hidden row-id column on each side makes the origin of every output row observable',
    'key kinds int / str / bool / date / hash-colliding ints (-1 vs -2, 0 vs 2^61-1, ...) are renderings of the class numbers; left and right key columns of differing inferred kind are outside the property '
    '(serif refuses them)',
    'PYTHONHASHSEED is swept over {0,1,2} for str keys (a configuration sweep, not a symbolic quantification)',
    'keys are given by name, by the table\'s own column, by an external unnamed vector, by an external vector named like ANOTHER column of its table (extnamed), or mixed; '
    'self-joins (same table object on both sides) at 3 rows; expect= variants only on inputs where the expectation holds (C11 decides the raising side)',
]


def obligations(tier, kind='inner', mode='rows', prefix='inner'):
    q = tier == 'quick'
    obs = []
    def add(nl, nr, **kw):
        c = {'nl': nl, 'nr': nr, 'kind': kind, 'mode': mode, 'K': 1, 'W': 1, 'ktype': 'int', 'spec': 'name'}
        c.update(kw)
        tag = ','.join('%s=%s' % (k, c[k]) for k in ('K', 'W', 'Wl', 'Wr', 'ktype', 'ktype2', 'spec', 'nones', 'expect') if (k in kw))
        hs = c.pop('hashseed', 0)
        name = '%s[%dx%d%s%s]' % (prefix, nl, nr, (',' + tag) if tag else '', (',seed=%d' % hs) if 'seed' in kw or hs else '')
        big = (nl + nr >= 5) or c['K'] >= 2
        obs.append(dict(name=name, fn='h_join', config=c, hashseed=hs, budget=(150 if big else 90) if q else (1200 if big else 400),
                        bounds='%dx%d rows, K=%d key columns (%s), all key equality patterns%s, W=%d symbolic int payload column(s) per side, keys given by %s'
                        % (nl, nr, c['K'], c['ktype'], ' incl. a None class' if c.get('nones', True) else '', c['W'], c['spec'])
                        + ((', expect=%s (inputs on which it must raise are skipped here; C11 decides those)' % c['expect']) if 'expect' in c else ''),
                        smoke=joinlib.smoke(nl, nr, c['K'], c['W'])))
    sizes = [(2, 2), (1, 2), (2, 1), (0, 2), (2, 0), (0, 0), (1, 1), (1, 3), (3, 1)]
    for nl, nr in sizes:
        add(nl, nr)
    add(3, 2, W=0, nones=False)      # a left key repeated at non-adjacent rows with both keys matched on the right needs 3x2
    add(2, 2, K=2, nones=False)
    add(2, 2, W=0)
    add(2, 2, W=2)
    obs.append(dict(name='%s[rejoin after a key write,2x2]' % prefix, fn='h_join',
                    config={'nl': 2, 'nr': 2, 'kind': kind, 'mode': 'rejoin', 'K': 1, 'W': 0, 'ktype': 'int', 'spec': 'name', 'nones': False, 'expect': 'many_to_many'},
                    budget=120 if q else 400, bounds='2x2 rows, every key pattern; join once, write a solver-chosen key class into a solver-chosen key cell of either table, join again: the second result follows the new keys',
                    smoke=[[0, 1, 0, 1, 0, 0] + [0] * 6 + [1, 0, 0, 1, 0, 0, 0, 0, 0, 0, 0, 0] + [-1, -1]]))
    for sp in ('name', 'col'):
        obs.append(dict(name='%s[self-join,3 rows,spec=%s]' % (prefix, sp), fn='h_join',
                        config={'nl': 3, 'nr': 0, 'kind': kind, 'mode': 'self', 'K': 1, 'W': 1, 'ktype': 'int', 'spec': sp},
                        budget=120 if q else 400, bounds='a 3-row table joined with itself (same object both sides), every key pattern incl. a None class, symbolic int payload',
                        smoke=[[0, 1, 0, 0, 0, 0] + [0] * 6 + [7, 8, 9, 0, 0, 0] + [0] * 6 + [-1, -1]]))
    add(2, 2, Wr=2)
    add(2, 2, Wl=2, W=0)
    for kt in ('str', 'bool', 'date', 'hashy'):
        add(2, 2, ktype=kt)
    for sp in ('col', 'ext', 'extnamed'):
        add(2, 2, spec=sp)
    for e in ('many_to_one', 'one_to_many', 'one_to_one'):
        add(2, 2, expect=e, W=0)          # an expectation that holds leaves rows and order as they are (repeated keys on the free side)
    add(2, 2, K=2, spec='mixed', nones=False, W=0)
    add(2, 2, K=3, nones=False, W=0, K2const=q)
    add(2, 1, K=3, spec='mixed', W=1, K2const=q)
    for seed in (1, 2):
        add(2, 2, ktype='str', hashseed=seed)
    if not q:
        add(3, 3, ktype='hashy', nones=False)
        for nl, nr in [(3, 3), (3, 2), (2, 3), (0, 3), (3, 0)]:
            add(nl, nr)
        add(2, 2, K=2)
        add(3, 2, K=2, nones=False)
        add(2, 2, K=2, ktype='str', ktype2='date', nones=False)
        for kt in ('str', 'bool', 'date'):
            add(3, 3, ktype=kt, nones=False)
        for sp in ('col', 'ext'):
            add(3, 2, spec=sp)
    return obs

"""C17 - every column is reachable by exactly one advertised, valid accessor name."""
import keyword, re
from vp import h as H
from vp.h import Vector, Table

H.standard_env(sanitize=False)      # the sanitiser is the subject here: no stub
ASSUMPTIONS = [
    'column names come from a menu of adversarial literals (None, empty, case variants, outer / double underscores, names that look like generated accessors, '
    'method names and their _ forms, leading digits, punctuation, unicode, Python keywords); which name sits in which column is a solver variable, width <= 3 (quick) / 4 (thorough)',
    'a Python keyword is not a valid accessor (t.if does not parse)',
    'histories of <= 2 (quick) / 3 (thorough) steps from {rename_column, rename_columns, rename through a live column view, attribute replacement, >> append, indexed replacement}',
    'thorough adds a bug-hunting pass of _sanitize_user_name on a symbolic str of length <= 3 (CrossHair string model, never reported as confirmed)',
]

MENU = ['a', 'A', None, '', 'a b', 'sum', 'if', 'a__1', '1x', '_a_', ' 3rd', '#1 pick', '_7', 'a__10', 'class ', ' IF', 'for?', 'cols', 'column_names', 'copy', 'col0_', 'a_b', 'A-b', 'é', 'name', 'x__0', 'class', 'a.b', 'None', 'T', '__', 'max_', '9', 'a_b__0', 'A b__1',
        'col1_', 'a__1_', 'Sum', 'a  b', 'lambda', 'shape', 'ß', 'a\tb', '_', 'c9', '0', 'x y z', 'colour', 'None_', 'import', '२']
ML = H.cfg('menu', 33)

_OK = 'abcdefghijklmnopqrstuvwxyz0123456789_'


def doc_sanitize(name):
    """The documented pipeline, written independently: lower-case; runs of other characters become one underscore;
    outer underscores stripped; leading digit prefixed with c; nothing left -> None."""
    s = str(name).lower()
    out = []
    in_run = False
    for ch in s:
        if ch in _OK:
            out.append(ch); in_run = False
        elif not in_run:
            out.append('_'); in_run = True
    s = ''.join(out).strip('_')
    if s == '':
        return None
    if s[0] in '0123456789':
        s = 'c' + s
    return s


def public_api():
    import serif.vector as sv
    return set(n for n in set(dir(sv.Vector)) | set(dir(Table)) if not n.startswith('_'))


def advertised(t):
    base = set(object.__dir__(t))
    return [n for n in dir(t) if n not in base]


def dot_row(t):
    lines = repr(t).split('\n')
    for ln in lines:
        toks = ln.split()
        if toks and all(tk.startswith('.') or tk == '...' for tk in toks) and any(tk.startswith('.') for tk in toks):
            return [tk[1:] for tk in toks]
    return None


def check_table(t, names, what):
    """All accessor obligations for one table whose stored names should be `names`."""
    W = len(names)
    if t.column_names() != list(names): return '%s: column_names() %r, expected %r' % (what, t.column_names(), names)
    # First, WITHOUT having asked dir() (which may refresh cached state): a column whose stored name is already a plain,
    # unreserved, unrepeated identifier is reachable under exactly that name - by row attribute, as item-assignment key and by getattr
    api0 = public_api(); low = set(n.lower() for n in api0)
    for j, nm in enumerate(names):
        plain = isinstance(nm, str) and re.match(r'^[a-z][a-z0-9]*$', nm) and nm not in low and not keyword.iskeyword(nm) and list(names).count(nm) == 1 \
            and not any(isinstance(o, str) and o != nm and doc_sanitize(o) == nm for o in names)
        if not plain or len(t) == 0: continue
        try:
            rv = getattr(t[0], nm)
        except Exception as e:
            return '%s: row attribute .%s (the stored name of column %d) raised %r (names %r)' % (what, nm, j, e, names)
        if rv != list(t.cols()[j])[0]: return '%s: row attribute .%s read %r, column %d holds %r' % (what, nm, rv, j, list(t.cols()[j])[0])
        try:
            t[0, nm] = rv
        except Exception as e:
            return '%s: t[0, %r] = x raised %r (names %r)' % (what, nm, e, names)
        try:
            col = getattr(t, nm)
        except Exception as e:
            return '%s: attribute .%s raised %r (names %r)' % (what, nm, e, names)
        if col is not t.cols()[j]: return '%s: attribute .%s is not column %d (names %r)' % (what, nm, j, names)
    adv = advertised(t)
    api = public_api()
    cols = t.cols()
    pos_of = {}
    for n in adv:
        if not isinstance(n, str) or not n.isidentifier() or keyword.iskeyword(n): return '%s: advertised accessor %r is not a usable identifier (names %r)' % (what, n, names)
        if n in api or n.lower() in api: return '%s: advertised accessor %r shadows a public attribute (names %r)' % (what, n, names)
        try:
            col = getattr(t, n)
        except Exception as e:
            return '%s: advertised accessor %r does not resolve: %r (names %r)' % (what, n, e, names)
        hits = [j for j, c in enumerate(cols) if c is col]
        if len(hits) != 1: return '%s: accessor %r resolves to %r, not to a column (names %r)' % (what, n, type(col).__name__, names)
        if hits[0] in pos_of: return '%s: accessors %r and %r both resolve to column %d (names %r)' % (what, pos_of[hits[0]], n, hits[0], names)
        pos_of[hits[0]] = n
    if len(adv) != len(set(adv)): return '%s: advertised accessors repeat: %r' % (what, adv)
    for j in range(W):
        if j not in pos_of: return '%s: column %d (%r) has no advertised accessor; advertised %r for names %r' % (what, j, names[j], adv, names)
    ordered = [pos_of[j] for j in range(W)]
    # documented sanitisation: the accessor starts from the documented pipeline of the stored name
    for j, n in enumerate(ordered):
        doc = doc_sanitize(names[j]) if names[j] is not None else None
        if doc is None:
            if n != 'col%d_' % j: return '%s: unnamed/unsanitisable column %d advertised as %r, documented col%d_' % (what, j, n, j)
        elif not n.startswith(doc): return '%s: column %d named %r advertised as %r, documented pipeline gives %r' % (what, j, names[j], n, doc)
    if W <= 10:
        dr = dot_row(t)
        if dr is not None and dr != ordered: return '%s: repr dot row %r differs from the advertised accessors %r (names %r)' % (what, dr, ordered, names)
    # item assignment by accessor writes the column at that position; Row attribute access reads it
    if len(t) > 0:
        for j, n in enumerate(ordered):
            marker = 1000 + j
            try:
                t[0, n] = marker
            except Exception as e:
                return '%s: t[0, %r] = x raised %r (names %r)' % (what, n, e, names)
            got = [list(c)[0] for c in t.cols()]
            if got[j] != marker: return '%s: t[0, %r] = x wrote column %r instead of column %d (names %r)' % (what, n, [k for k, g in enumerate(got) if g == marker], j, names)
            try:
                rv = getattr(t[0], n)
            except Exception as e:
                return '%s: row attribute .%s raised %r (names %r, accessors %r)' % (what, n, e, names, ordered)
            if rv != marker: return '%s: row attribute .%s read %r, expected column %d' % (what, n, rv, j)
            for rrow in t:
                if getattr(rrow, n) != marker: return '%s: iterated row attribute .%s stale' % (what, n)
                break
    # string indexing by a stored name resolves to its first occurrence
    for j, nm in enumerate(names):
        if isinstance(nm, str):
            first = [k for k, x in enumerate(names) if x == nm][0]
            try:
                col = t[nm]
            except Exception as e:
                return '%s: t[%r] raised %r (names %r)' % (what, nm, e, names)
            if col is not t.cols()[first]: return '%s: t[%r] is not the first column with that stored name (names %r)' % (what, nm, names)
    return None


def _table_body(idx, rows):
    names = [MENU[i] for i in idx]
    t = Table([Vector([j * 10 + r for r in range(rows)], name=nm) for j, nm in enumerate(names)])
    why = check_table(t, names, 'fresh table')
    if why: return H.fail(why)
    return True


def h_table(i0: int, i1: int, i2: int, i3: int, W: int, rows: int) -> bool:
    """
    pre: 0 <= i0 < ML and 0 <= i1 < ML and 0 <= i2 < ML and 0 <= i3 < ML
    pre: 1 <= W <= 4 and 0 <= rows <= 1
    pre: H.fix(W=W, i0=i0, rows=rows)
    pre: (W >= 2 or i1 == 0) and (W >= 3 or i2 == 0) and (W >= 4 or i3 == 0)
    post: _
    """
    H.reset()
    if H.skip(locals()): return True
    R = list(range(len(MENU)))
    idx = [H.among(R, i) for i in (i0, i1, i2, i3)][:H.cfg('W')]
    if not H.concrete(_table_body, idx, H.cfg('rows')): return False
    return H.ok()


def _rules_body(i):
    import serif.naming as sn
    nm = MENU[i]
    got = sn._sanitize_user_name(nm)
    doc = doc_sanitize(nm)
    api = public_api()
    if doc is None:
        if got is not None: return H.fail('_sanitize_user_name(%r) = %r, documented: nothing left -> None' % (nm, got))
        return True
    if got is None or not got.startswith(doc): return H.fail('_sanitize_user_name(%r) = %r, documented pipeline gives %r' % (nm, got, doc))
    if got != doc:
        # only a reserved word, a public attribute or an accessor look-alike may be altered, and only by appending underscores
        special = doc in api or doc in set(n.lower() for n in api) or keyword.iskeyword(doc) or (doc.rpartition('__')[2].isdigit() and doc.rpartition('__')[0] != '')
        if not special or got.rstrip('_') != doc.rstrip('_'): return H.fail('_sanitize_user_name(%r) = %r differs from the documented %r without need' % (nm, got, doc))
    if got in api or keyword.iskeyword(got): return H.fail('_sanitize_user_name(%r) = %r is reserved' % (nm, got))
    return True


def h_rules(i: int) -> bool:
    """
    pre: 0 <= i < len(MENU)
    post: _
    """
    H.reset()
    if H.skip(locals()): return True
    if not H.concrete(_rules_body, H.among(list(range(len(MENU))), i)): return False
    return H.ok()


STEPS = ['rename_column', 'rename_columns', 'view-rename', 'setattr', 'append', 'setattr-indexed', 'view-rename-second', 'view-alias', 'append-unnamed']
NEW = ['zz', 'sum', None, 'A', 'a b', 'if', 'zz']


def _hist_body(idx, steps, newi):
    names = [MENU[i] for i in idx]
    t = Table([Vector([j * 10, j * 10 + 1], name=nm) for j, nm in enumerate(names)])
    why = check_table(t, names, 'start')
    if why: return H.fail(why)
    for k, (st, ni) in enumerate(zip(steps, newi)):
        new = NEW[ni]
        W = len(names)
        try:
            if st == 'rename_column':
                tgt = names[0]
                t.rename_column(tgt, new); names[names.index(tgt)] = new
            elif st == 'rename_columns':
                if W < 2 or names[0] == names[1]: continue
                t.rename_columns([names[1], names[0]], [new, 'q%d' % k]); names[1] = new; names[0] = 'q%d' % k
            elif st == 'view-rename':
                t.cols()[0].name = new; names[0] = new
            elif st == 'view-rename-second':
                if W < 2: continue
                acc = advertised(t)
                col = t.cols()[1]
                col.name = new; names[1] = new
            elif st == 'view-alias':
                # naming an unnamed column through a live view with Vector.alias()
                j = [k_ for k_, nm_ in enumerate(names) if nm_ is None]
                if not j or new is None: continue
                t.cols()[j[0]].alias(new); names[j[0]] = new
            elif st == 'append-unnamed':
                t = t >> Vector([8, 9]); names.append(None)
            elif st == 'setattr':
                acc = [n for n in advertised(t) if getattr(t, n) is t.cols()[0]]
                if not acc: return H.fail('no accessor for column 0')
                setattr(t, acc[0], Vector([5, 6], name='ignored'))
            elif st == 'setattr-indexed':
                san = doc_sanitize(names[W - 1]) if names[W - 1] is not None else None
                if san is None or san in public_api() or keyword.iskeyword(san): continue
                try:
                    setattr(t, '%s__%d' % (san, W - 1), [7, 8])
                except AttributeError:
                    continue        # the indexed form is only promised for plain sanitised names
            elif st == 'append':
                t = t >> Vector([8, 9], name=new); names.append(new)
        except Exception as e:
            return H.fail('history %r on names %r: step %s raised %r' % (steps, [MENU[i] for i in idx], st, e))
        why = check_table(t, names, 'after %r (step %d: %s -> %r) from %r' % (steps[:k + 1], k, st, new, [MENU[i] for i in idx]))
        if why: return H.fail(why)
    return True


def h_hist(i0: int, i1: int, s0: int, s1: int, s2: int, n0: int, n1: int, n2: int) -> bool:
    """
    pre: 0 <= i0 < ML and 0 <= i1 < ML
    pre: 0 <= s0 < len(STEPS) and 0 <= s1 < len(STEPS) and 0 <= s2 < len(STEPS)
    pre: 0 <= n0 < H.cfg('new', 6) and 0 <= n1 < H.cfg('new', 6) and 0 <= n2 < H.cfg('new', 6)
    pre: H.fix(s0=s0, s1=s1)
    pre: H.cfg('H', 2) >= 3 or (s2 == 0 and n2 == 0)
    post: _
    """
    H.reset()
    if H.skip(locals()): return True
    R = list(range(len(MENU))); RS = list(range(len(STEPS))); RN = list(range(6))
    depth = H.cfg('H', 2)
    steps = [STEPS[H.among(RS, s)] for s in (s0, s1, s2)][:depth]
    newi = [H.among(RN, n) for n in (n0, n1, n2)][:depth]
    if not H.concrete(_hist_body, [H.among(R, i0), H.among(R, i1)], steps, newi): return False
    return H.ok()


def h_symbolic_str(s: str) -> bool:
    """
    pre: len(s) <= 3
    post: _
    """
    import serif.naming as sn
    got = sn._sanitize_user_name(s)
    doc = doc_sanitize(s)
    if doc is None:
        return got is None
    return got is not None and got.startswith(doc) and got.isidentifier() and not keyword.iskeyword(got)


def obligations(tier):
    q = tier == 'quick'
    M = 35 if q else len(MENU)
    obs = []
    obs.append(dict(name='rules', fn='h_rules', config={}, budget=60, bounds='_sanitize_user_name on all %d menu names vs the documented pipeline written independently' % len(MENU), smoke=[[0], [5], [6]]))
    for W in (1, 2):
        obs.append(dict(name='table[W=%d]' % W, fn='h_table', config={'W': W, 'menu': M, 'rows': 1}, budget=120 if q else 300,
                        bounds='every assignment of %d-entry menu names to %d column(s)' % (M, W), smoke=[[0, 1 if W > 1 else 0, 0, 0, W, 1], [5, 6 if W > 1 else 0, 0, 0, W, 1]]))
    obs.append(dict(name='table[W=2,0 rows]', fn='h_table', config={'W': 2, 'menu': M, 'rows': 0}, budget=120 if q else 300, bounds='as W=2 on a zero-row table', smoke=[[0, 1, 0, 0, 2, 0]]))
    for i0 in range(M if not q else 16):
        obs.append(dict(name='table[W=3,first=%d]' % i0, fn='h_table', config={'W': 3, 'i0': i0, 'menu': M if not q else 16, 'rows': 1}, budget=90 if q else 400,
                        bounds='3 columns: first name fixed per job, the other two over the first %d menu entries' % (M if not q else 16), smoke=[[i0, 0, 1, 0, 3, 1]]))
        if not q and i0 < 12:
            obs.append(dict(name='table[W=4,first=%d]' % i0, fn='h_table', config={'W': 4, 'i0': i0, 'menu': 12, 'rows': 1}, budget=600,
                            bounds='4 columns: first fixed per job, the other three over the first 12 menu entries', smoke=[[i0, 0, 1, 2, 4, 1]]))
    for s0 in range(len(STEPS)):
        for s1 in range(len(STEPS)):
            if not q:
                obs.append(dict(name='hist[H=2,%s,%s]' % (STEPS[s0], STEPS[s1]), fn='h_hist', config={'s0': s0, 's1': s1, 'menu': 14, 'new': 6, 'H': 2}, budget=400,
                                bounds='2 start columns over the first 14 menu names; two steps fixed per job; 6 new names', smoke=[[0, 1, s0, s1, 0, 0, 1, 0]]))
            obs.append(dict(name='hist[%s,%s]' % (STEPS[s0], STEPS[s1]), fn='h_hist', config={'s0': s0, 's1': s1, 'menu': 8 if q else 6, 'new': 4 if q else 3, 'H': 2 if q else 3}, budget=90 if q else 600,
                            bounds='2 start columns over the first %d menu names; first two steps fixed per job%s; new names from {zz,A,None,sum,"a b",if}; all accessor obligations re-asserted after every step'
                            % (8 if q else 6, '' if q else ', every third step'), smoke=[[0, 1, s0, s1, 0, 0, 1, 0]]))
    if not q:
        obs.append(dict(name='symbolic-str (bug hunting only)', fn='h_symbolic_str', config={}, budget=600, twin=False,
                        bounds='_sanitize_user_name on a symbolic str, len <= 3 (CrossHair string model; inconclusive by construction)'))
    return obs

"""C11 - join cardinality expectations are enforced exactly."""
from vp import h as H
from harness import joinlib, c09
from harness.joinlib import h_join, join_pre

H.standard_env()
ASSUMPTIONS = list(c09.ASSUMPTIONS) + [
    'expect is concrete per job: the four legal values, the omitted argument (documented defaults many_to_one / many_to_one / many_to_many) and two illegal values',
    'uniqueness of a side is computed from the key tuples of ALL its rows (duplicates among unmatched rows count)',
]

EXPECTS = ['one_to_one', 'many_to_one', 'one_to_many', 'many_to_many', 'default', 'bogus', '']


def obligations(tier):
    q = tier == 'quick'
    obs = []
    for kind in ('inner', 'left', 'full'):
        for ex in EXPECTS:
            sizes = [(2, 2)] if q else [(2, 2), (3, 2), (2, 3), (3, 3)]
            if ex in ('bogus', ''):
                sizes = [(2, 2)]
            for nl, nr in sizes:
                big = nl + nr >= 5
                obs.append(dict(name='card[%s,%s,%dx%d]' % (kind, ex or 'empty-string', nl, nr), fn='h_join',
                                config={'nl': nl, 'nr': nr, 'kind': kind, 'mode': 'card', 'expect': ex, 'K': 1, 'W': 1, 'ktype': 'int', 'spec': 'name'},
                                budget=120 if q else (1500 if big else 600),
                                bounds='%dx%d rows, all key equality patterns incl. a None class (unique / duplicated on each side, duplicates only among unmatched rows)' % (nl, nr),
                                smoke=joinlib.smoke(nl, nr)))
        for ex in ('one_to_one', 'many_to_one', 'one_to_many'):
            obs.append(dict(name='card[%s,%s,2x2,K=2]' % (kind, ex), fn='h_join',
                            config={'nl': 2, 'nr': 2, 'kind': kind, 'mode': 'card', 'expect': ex, 'K': 2, 'W': 0, 'ktype': 'int', 'spec': 'name', 'nones': False},
                            budget=200 if q else 900, bounds='2x2 rows, composite key (rows may agree on one component only)', smoke=joinlib.smoke(2, 2, 2, 0)))
        for ex in ('one_to_one', 'many_to_one', 'one_to_many'):
            obs.append(dict(name='card[%s,%s,rejoin after a key write]' % (kind, ex), fn='h_join',
                            config={'nl': 2, 'nr': 2, 'kind': kind, 'mode': 'rejoin', 'K': 1, 'W': 0, 'ktype': 'int', 'spec': 'name', 'nones': False, 'expect': ex},
                            budget=120 if q else 400, bounds='2x2 rows, every key pattern; join once, write a key cell (possibly creating or removing a duplicate), join again: the expectation is re-evaluated on the current keys',
                            smoke=[[0, 1, 0, 1, 0, 0] + [0] * 6 + [1, 0, 0, 1, 0, 0, 0, 0, 0, 0, 0, 0] + [-1, -1]]))
        obs.append(dict(name='card[%s,one_to_one,2x2,hash-colliding keys]' % kind, fn='h_join',
                        config={'nl': 2, 'nr': 2, 'kind': kind, 'mode': 'card', 'expect': 'one_to_one', 'K': 1, 'W': 0, 'ktype': 'hashy', 'spec': 'name', 'nones': False},
                        budget=120 if q else 600, bounds='2x2 rows, keys are distinct ints with pairwise colliding hashes', smoke=joinlib.smoke(2, 2, 1, 0)))
        obs.append(dict(name='card[%s,one_to_one,2x2,K=3]' % kind, fn='h_join',
                        config={'nl': 2, 'nr': 2, 'kind': kind, 'mode': 'card', 'expect': 'one_to_one', 'K': 3, 'W': 0, 'ktype': 'int', 'spec': 'name', 'nones': False, 'K2const': q},
                        budget=200 if q else 900, bounds='2x2 rows, 3-component key', smoke=joinlib.smoke(2, 2, 2, 0)))
        for ex in ('one_to_one', 'many_to_one', 'one_to_many'):
            for nl, nr in ((1, 2), (2, 1), (2, 0), (0, 2)):
                obs.append(dict(name='card[%s,%s,%dx%d]' % (kind, ex, nl, nr), fn='h_join',
                                config={'nl': nl, 'nr': nr, 'kind': kind, 'mode': 'card', 'expect': ex, 'K': 1, 'W': 1, 'ktype': 'int', 'spec': 'name'},
                                budget=90 if q else 300, bounds='%dx%d rows, all key patterns' % (nl, nr), smoke=joinlib.smoke(nl, nr)))
    return obs

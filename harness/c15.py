"""C15 - alias tracking is exact: no leaked write, no spurious refusal."""
import sys
from vp import h as H
from vp.h import Vector, Table, AliasError
import serif.vector as sv
import serif.table as stb

H.standard_env(fresh_id=False)
ASSUMPTIONS = [
    'id() of storage tuples, as seen from serif.vector, is a solver-influenced function obeying exactly CPython\'s contract: unique among simultaneously live objects, '
    'free to return the identity of a DEAD tuple; bound: at most one reuse event per history, at a solver-chosen allocation (reuse_at) of a solver-chosen dead identity (which)',
    'liveness is CPython reference counting (immediate collection, no cycles through vectors): a tuple is dead when only the model still references it; '
    'other interpreters / GC timings are outside the claim',
    'histories: 2 (quick) / 3 (thorough) steps from a 17-operation alphabet, then EVERY live vector (harness slots and the columns of live tables) is probed with a write; '
    'the true sharing relation (identity of the storage objects among live vectors) is the oracle',
    'the serif calls run natively once the solver has fixed the history and the reuse schedule (reference counts are only meaningful without the tracer)',
]


class IdModel:
    def __init__(self, reuse_at, which):
        self.reuse_at, self.which = reuse_at, which
        self.n = 0
        self.known = []          # [tuple object, model id] - strong references: real identities are never recycled, the model decides
        self.next_fresh = 1 << 20
        self.reused = None
        self.force = None        # pinned mode: the next new tuple gets this (dead) identity

    def _dead_ids(self):
        live = set(); order = []
        for ent in self.known:
            # references: the entry list, getrefcount's argument  -> anything above means some vector (or the caller) still holds it
            if sys.getrefcount(ent[0]) > 2 or ent[0] == ():
                live.add(ent[1])
        for ent in self.known:
            if ent[1] not in live and ent[1] not in order:
                order.append(ent[1])
        return order

    def __call__(self, obj):
        if type(obj) is not tuple:
            return id(obj)
        for ent in self.known:
            if ent[0] is obj:
                return ent[1]
        n = self.n; self.n += 1
        mid = None
        if self.force is not None:
            mid = self.force; self.force = None; self.reused = mid
        elif n == self.reuse_at:
            dead = self._dead_ids()
            if dead:
                mid = dead[self.which % len(dead)]
                self.reused = mid
        if mid is None:
            mid = self.next_fresh; self.next_fresh += 8
        self.known.append([obj, mid])
        return mid


OPS = ['new', 'shared-pair', 'copy', 'slice', 'full-slice', 'op-result', 'write', 'promote', 'v>>w', 'Table(dict)', 'row-slice', 'row-mask', 'setattr', 'drop-vector', 'drop-table',
       'empties', 'self-write', 'view-write', 'cell-write', 'Table(list)', 'colsel', 'sort', 'join']


class Ctx:
    def __init__(self):
        self.slots = []
        self.tables = []
        self.k = 0

    def live_vectors(self):
        out = [('slot%d' % i, v) for i, v in enumerate(self.slots)]
        for j, t in enumerate(self.tables):
            for c, col in enumerate(t.cols()):
                out.append(('table%d.col%d' % (j, c), col))
        return out

    def partners(self, v):
        return [nm for nm, o in self.live_vectors() if o is not v and o._underlying is v._underlying and len(v._underlying) > 0]


def checked_write(ctx, label, v, do):
    """Performs a write and applies the oracle.  Returns a reason string on violation, else None."""
    shared_with = ctx.partners(v)
    others = [(nm, o, list(o)) for nm, o in ctx.live_vectors() if o is not v]
    try:
        do()
        refused = False
    except AliasError:
        refused = True
    if refused and not shared_with:
        return 'write through %s was refused with AliasError although no other live vector shares its storage' % label
    for nm, o, before in others:
        if not H.same_list(list(o), before):
            return 'write through %s changed %s: %r -> %r' % (label, nm, before, list(o))
    return None


def step(ctx, op, p):
    ctx.k += 1
    k = ctx.k
    S, T = ctx.slots, ctx.tables
    n_before = len(S)
    s = S[p % len(S)] if S else None
    t = T[p % len(T)] if T else None
    if op == 'new': S.append(Vector([k, k + 1, k + 2], name='n%d' % k))
    elif op == 'shared-pair':
        tup = tuple([k * 10, k * 10 + 1, k * 10 + 2])
        S.append(Vector(tup)); S.append(Vector(tup))
        del tup
    elif op == 'copy':
        if s is not None: S.append(s.copy())
    elif op == 'slice':
        if s is not None: S.append(s[0:2])
    elif op == 'full-slice':
        if s is not None: S.append(s[:] if p else s[0:len(s) + 5])
    elif op == 'op-result':
        if s is not None and len(s): S.append(s + 1)
    elif op == 'write':
        if s is not None and len(s): return checked_write(ctx, 'slot', s, lambda: s.__setitem__(0, 500 + k))
    elif op == 'promote':
        if s is not None and len(s) and s.schema().kind is int: return checked_write(ctx, 'slot (promoting)', s, lambda: s.__setitem__(0, 0.5))
    elif op == 'v>>w':
        if len(S) >= 2 and len(S[p % len(S)]) == len(S[(p + 1) % len(S)]) and len(S[p % len(S)]) > 0:
            r = S[p % len(S)] >> S[(p + 1) % len(S)]
            if isinstance(r, Table): T.append(r)
    elif op == 'Table(dict)': T.append(Table({'a': [k, k + 1, k + 2], 'b': [1, 2, 3]}))
    elif op == 'Table(list)':
        if s is not None and len(s): T.append(Table([s, s.copy()]))
    elif op == 'row-slice':
        if t is not None: T.append(t[0:2])
    elif op == 'row-mask':
        if t is not None and len(t): T.append(t[[i % 2 == 0 for i in range(len(t))]])
    elif op == 'colsel':
        if t is not None:
            nm = [n for n in t.column_names() if isinstance(n, str)]
            if nm: T.append(t[(nm[0],) * 2] if len(nm) < 2 else t[nm[1], nm[0]])
    elif op == 'sort':
        if t is not None and len(t.cols()): T.append(t.sort_by(t.cols()[0], reverse=True))
    elif op == 'join':
        if t is not None and len(t.cols()) and len(t): T.append(t.join(Table({'jk': list(t.cols()[0]), 'jv': list(range(len(t)))}), t.cols()[0], 'jk', expect='many_to_many'))
    elif op == 'setattr':
        if t is not None and len(t.cols()):
            acc = [n for n in dir(t) if n not in set(object.__dir__(t))]
            if acc:
                donor = Vector([900 + i for i in range(len(t))])
                setattr(t, acc[0], donor)
                S.append(donor)
    elif op == 'drop-vector':
        if S: S.pop(p % len(S))
    elif op == 'drop-table':
        if T: T.pop(p % len(T))
    elif op == 'empties':
        S.append(Vector([])); S.append(Vector([], dtype=int))
    elif op == 'self-write':
        if s is not None and len(s): return checked_write(ctx, 'slot (value is self)', s, lambda: s.__setitem__(slice(0, len(s)), s))
    elif op == 'view-write':
        if t is not None and len(t) and len(t.cols()):
            col = t.cols()[0]
            return checked_write(ctx, 'table column view', col, lambda: col.__setitem__(0, 700 + k))
    elif op == 'cell-write':
        if t is not None and len(t) and len(t.cols()):
            col = t.cols()[0]
            return checked_write(ctx, 'table cell', col, lambda: t.__setitem__((0, 0), 600 + k))
    else:
        raise ValueError(op)
    if op in ('new', 'copy', 'slice', 'full-slice', 'op-result') and len(S) > n_before:
        # fresh vectors, copies, slices and operation results share storage with no other live vector
        shared = ctx.partners(S[-1])
        if shared: return 'the vector produced by %s shares its storage with %s' % (op, shared)
    return None


def _hist_body(ops, ps, reuse_at, which):
    try:
        import serif.alias_tracker as at
        at._ALIAS_TRACKER._registry.clear()
    except Exception:
        pass
    model = IdModel(reuse_at, which)
    sv.id = model
    stb.id = model
    try:
        ctx = Ctx()
        for op, p in zip(ops, ps):
            try:
                why = step(ctx, op, p)
            except AliasError as e:
                why = 'step %s raised AliasError outside a write: %r' % (op, e)
            except (TypeError, ValueError, KeyError):
                why = None        # the operation itself was rejected for an unrelated reason (e.g. >> of vectors of different kinds): not part of this property
            if why:
                return H.fail('history %r (reuse at allocation %d of dead identity #%d%s): %s' % (ops, reuse_at, which, ', reused' if model.reused else '', why))
        # probe EVERY live vector
        for label, v in ctx.live_vectors():
            if len(v) == 0:
                try:
                    v[0:0] = []
                    v[:] = []          # a second and third write: the first one may have (re-)registered the shared empty storage
                    v[0:0] = []
                except AliasError:
                    return H.fail('history %r: empty vector %s refuses a write' % (ops, label))
                continue
            why = checked_write(ctx, label, v, lambda v=v: v.__setitem__(0, v[0]))
            if why:
                return H.fail('history %r (reuse at allocation %d of dead identity #%d%s): %s' % (ops, reuse_at, which, ', identity was reused' if model.reused else '', why))
            # a second write right after the first must still work (the vector now owns fresh storage)
            why = checked_write(ctx, label + ' (second write)', v, lambda v=v: v.__setitem__(0, v[0]))
            if why:
                return H.fail('history %r: %s' % (ops, why))
        # former sharers: a slot vector that (legitimately) shares storage must be writable once every partner has been dropped.
        # (no snapshot list of the slots is taken here: it would keep the dropped partners alive)
        i = 0
        while i < len(ctx.slots):
            v = ctx.slots[i]
            i += 1
            if len(v) == 0: continue
            mates_idx = [j for j in range(len(ctx.slots)) if ctx.slots[j] is not v and ctx.slots[j]._underlying is v._underlying]
            in_table = any(col._underlying is v._underlying for t in ctx.tables for col in t.cols())
            if not mates_idx or in_table: continue
            for j in reversed(mates_idx):
                del ctx.slots[j]
            i = [j for j in range(len(ctx.slots)) if ctx.slots[j] is v][0] + 1
            why = checked_write(ctx, 'a former sharer whose partners were dropped', v, lambda v=v: v.__setitem__(0, v[0]))
            if why:
                return H.fail('history %r: %s' % (ops, why))
        v = None
        # pinned reuse: the storage of a brand-new vector receives the identity of a dead tuple (solver-chosen which one)
        if reuse_at == -2:
            dead = model._dead_ids()
            if which < len(dead):
                model.force = dead[which]
                fresh = Vector([41, 42, 43])
                ctx.slots.append(fresh)
                why = checked_write(ctx, 'a brand-new vector whose storage received the identity of dead storage #%d' % which, fresh, lambda: fresh.__setitem__(0, 1))
                if why:
                    return H.fail('history %r: %s' % (ops, why))
                dead = model._dead_ids()
                if ctx.slots and len(ctx.slots[0]) and which < len(dead):
                    model.force = dead[which]
                    cp = ctx.slots[0].copy()
                    ctx.slots.append(cp)
                    why = checked_write(ctx, 'a fresh copy whose storage received the identity of dead storage #%d' % which, cp, lambda: cp.__setitem__(0, 1))
                    if why:
                        return H.fail('history %r: %s' % (ops, why))
    finally:
        for m_ in (sv, stb):
            if 'id' in m_.__dict__:
                del m_.__dict__['id']
    return True


def h_hist(o0: int, o1: int, o2: int, p0: int, p1: int, p2: int, reuse_at: int, which: int) -> bool:
    """
    pre: 0 <= o0 < len(OPS) and 0 <= o1 < len(OPS) and 0 <= o2 < len(OPS) and 0 <= p0 <= 1 and 0 <= p1 <= 1 and 0 <= p2 <= 1
    pre: -2 <= reuse_at <= H.cfg('maxalloc', 14) and 0 <= which <= H.cfg('maxwhich', 2)
    pre: reuse_at != -1 or which == 0
    pre: H.cfg('pinned', False) == (reuse_at == -2)
    pre: H.fix(o0=o0, o1=o1)
    pre: H.cfg('H', 2) >= 3 or (o2 == 0 and p2 == 0)
    post: _
    """
    H.reset()
    if H.skip(locals()): return True
    depth = H.cfg('H', 2)
    RO = list(range(len(OPS)))
    pre = H.cfg('prefix', [])
    ops = list(pre) + [OPS[H.among(RO, o)] for o in (o0, o1, o2)][:depth]
    ps = [0] * len(pre) + [H.among([0, 1], p) for p in (p0, p1, p2)][:depth]
    if not H.concrete(_hist_body, ops, ps, H.among(list(range(-2, 40)), reuse_at), H.among(list(range(0, 16)), which)): return False
    return H.ok()


def obligations(tier):
    q = tier == 'quick'
    obs = []
    prefix = ['new', 'Table(dict)']       # every history starts with one live vector and one live table
    for o0 in range(len(OPS)):
        obs.append(dict(name='pinned[H=2,first=%s]' % OPS[o0], fn='h_hist', config={'o0': o0, 'H': 2, 'prefix': prefix, 'pinned': True, 'maxwhich': 11}, budget=150 if q else 400,
                        bounds='prefix new + Table(dict); first operation fixed per job, every second operation of the 23-operation alphabet, 2 operand choices each; every live vector probed with '
                               'two writes; then the storage of a brand-new vector (and of a fresh copy) receives the identity of dead storage #0..11 (solver-chosen) and must be writable',
                        smoke=[[o0, 5, 0, 0, 0, 0, -2, 0], [o0, 7, 0, 0, 1, 0, -2, 1]]))
    firsts = [OPS.index(x) for x in ('v>>w', 'setattr', 'Table(list)', 'shared-pair', 'drop-table', 'write')] if q else list(range(len(OPS)))
    for o0 in firsts:
        obs.append(dict(name='free-reuse[H=2,first=%s]' % OPS[o0], fn='h_hist', config={'o0': o0, 'H': 2, 'prefix': prefix, 'maxalloc': 12 if q else 24, 'maxwhich': 1 if q else 2}, budget=150 if q else 600,
                        bounds='as above but the single reuse event may strike at any allocation 0..%d during the history (dead identity #0..%d), or not at all' % (12 if q else 24, 1 if q else 2),
                        smoke=[[o0, 5, 0, 0, 0, 0, -1, 0], [o0, 7, 0, 0, 1, 0, 6, 0]]))
    if not q:
        deep = [OPS.index(x) for x in ('shared-pair', 'v>>w', 'setattr', 'Table(list)', 'promote', 'drop-vector', 'drop-table', 'self-write', 'empties', 'full-slice')]
        for o0 in deep:
            for o1 in range(len(OPS)):
                obs.append(dict(name='pinned[H=3,%s,%s]' % (OPS[o0], OPS[o1]), fn='h_hist', config={'o0': o0, 'o1': o1, 'H': 3, 'prefix': prefix, 'pinned': True, 'maxwhich': 15}, budget=600,
                                bounds='depth 3: first two operations fixed per job, every third operation; pinned reuse of dead identity #0..15', smoke=[[o0, o1, 5, 0, 0, 0, -2, 0]]))
    return obs

"""C03 - a vector's reported dtype is always truthful."""
import operator, io
from typing import Optional, Union
from datetime import date, datetime
from vp import h as H
from vp.h import Vector, Table, DataType, infer_dtype

H.standard_env()
ASSUMPTIONS = [
    'element VALUES come from a menu of representatives {None, True, 2, 2.5, "x", False, -3, 0, 1+1j, date, datetime}; which element sits where is a '
    'solver variable (symbolic index), so every combination within the stated length is covered and CONFIRMED means z3 found no combination left; '
    'once the indices are decided the (now fully concrete) serif calls run with tracing off (same result, ~20x cheaper)',
    'value-dependent typing (int ** negative int -> float, bool + bool -> int) is covered by C05 with symbolic ints',
    'operations that raise are outside this property (the elementwise contract is C05); for in-place writes the vector must still be truthful after the exception',
    'complex/bytes/date/datetime/str-subclass/int-subclass elements enter through concrete representatives only',
    'join result columns are examined with padding on both sides, on one side only and on neither (2-3 row tables with fixed int keys)',
]

U = Union[None, bool, int, float]
MENU = [None, True, 2, 2.5, 'x', False, -3, 0, 1 + 1j, date(2020, 1, 2), datetime(2020, 1, 2, 3, 4)]
ML = H.cfg('menu', 6)

_BIN = {'add': operator.add, 'sub': operator.sub, 'mul': operator.mul, 'truediv': operator.truediv,
        'floordiv': operator.floordiv, 'mod': operator.mod, 'pow': operator.pow,
        'eq': operator.eq, 'lt': operator.lt, 'and': operator.and_, 'or': operator.or_}


def check_truthful(r, what):
    """truthful(r) and the write-back form of the statement."""
    if isinstance(r, Table):
        for c in r.cols():
            w = check_truthful(c, what + ' column %r' % (c.name,))
            if w: return w
        # rows obtained by indexing and by iteration are vectors as well: their reported dtype must not lie about the cells
        rows = []
        try:
            rows = [r[i] for i in range(len(r))] + [rw for rw in r][-1:]
        except Exception:
            rows = []
        for rw in rows:
            sch = rw.schema(); cells = list(rw)
            for e in cells:
                if e is None:
                    if sch is not None and not sch.nullable: return '%s: row %r reports %r but holds None' % (what, cells, sch)
                elif sch is not None and not H.belongs(e, sch.kind): return '%s: row %r reports %r but holds %r' % (what, cells, sch, e)
        return None
    if not isinstance(r, Vector):
        return None
    t = H.truthful(r)
    if t: return '%s: %s (values %r)' % (what, t, list(r))
    sch = r.schema()
    vals = list(r)
    for i in range(len(vals)):
        try:
            r[i] = vals[i]
        except Exception as e:
            return '%s: writing element %d (%r) back was refused: %r' % (what, i, vals[i], e)
        if r.schema() != sch:
            return '%s: writing element %d (%r) back changed dtype %r -> %r' % (what, i, vals[i], sch, r.schema())
    return None


def _apply(op, v, w, wl, s):
    """Returns list of (label, result) or raises."""
    if op in _BIN:
        f = _BIN[op]
        form = H.cfg('form')
        if form == 'vv': return f(v, w)
        if form == 'vs': return f(v, s)
        if form == 'sv': return f(s, v)
        if form == 'vl': return f(v, wl)
        if form == 'lv': return f(wl, v)
        raise ValueError(form)
    if op == 'neg': return -v
    if op == 'pos': return +v
    if op == 'abs': return abs(v)
    if op == 'invert': return ~v
    if op == 'concat_v': return v << w
    if op == 'concat_l': return v << wl
    if op == 'concat_s': return v << s
    if op == 'rconcat_l': return wl << v
    if op == 'rconcat_s': return s << v
    if op == 'fillna': return v.fillna(s)
    if op == 'dropna': return v.dropna()
    if op == 'isna': return v.isna()
    if op == 'to_object': return v.to_object()
    if op == 'unique': return v.unique()
    if op == 'sort_by': return v.sort_by()
    if op == 'copy': return v.copy()
    if op == 'slice': return v[0:1]
    if op == 'mask': return v[[True] + [False] * (len(v) - 1)] if len(v) else v.copy()
    if op == 'T': return v.T
    if op == 'cast_float': return v.cast(float)
    if op == 'cast_int': return v.cast(int)
    if op == 'cast_str': return v.cast(str)
    if op == 'cast_bool': return v.cast(bool)
    if op == 'isinstance': return v.isinstance(int)
    if op == 'table_cols': return Table({'a': v, 'b': w})
    if op == 'rshift': return v >> w
    if op == 'sort_table': return Table({'a': v, 'b': w}).sort_by('b') if all(x is None or type(x) in (int, bool) for x in wl) else None
    if op == 'left_join': return Table({'k': [0, 1][:len(v)], 'a': v}).join(Table({'k': [1, 5][:len(w)], 'b': w}), 'k', 'k', expect='many_to_many')
    if op == 'full_join': return Table({'k': [0, 1][:len(v)], 'a': v}).full_join(Table({'k': [1, 5][:len(w)], 'b': w}), 'k', 'k')
    # joins in which only one side has unmatched rows (padding on one side only), or none
    if op == 'full_join_right_extra': return Table({'k': [1, 5][:len(v)], 'a': v}).full_join(Table({'k': [1, 5, 7][:len(w) + 1], 'b': list(wl) + [wl[0]]}), 'k', 'k')
    if op == 'full_join_left_extra': return Table({'k': [1, 5, 7][:len(v) + 1], 'a': list(v) + [v[0]]}).full_join(Table({'k': [1, 5][:len(w)], 'b': w}), 'k', 'k')
    if op == 'full_join_all_matched': return Table({'k': [1, 5][:len(v)], 'a': v}).full_join(Table({'k': [5, 1] if len(w) == 2 else [1], 'b': w}), 'k', 'k')
    if op == 'left_join_all_matched': return Table({'k': [1, 5][:len(v)], 'a': v}).join(Table({'k': [1, 5][:len(w)], 'b': w}), 'k', 'k', expect='many_to_many')
    if op == 'inner_join': return Table({'k': [1, 5][:len(v)], 'a': v}).inner_join(Table({'k': [5, 9][:len(w)], 'b': w}), 'k', 'k', expect='many_to_many')
    if op == 'aggregate':
        return Table({'k': [0, 0, 1][:len(v)], 'a': v}).aggregate(over='k', sum_over='a', min_over='a', max_over='a', mean_over='a', count_over='a')
    if op == 'window':
        return Table({'k': [0, 0, 1][:len(v)], 'a': v}).window(over='k', sum_over='a', max_over='a', count_over='a')
    if op == 'table_arith': return Table({'a': v, 'b': w}) + s
    if op == 'table_T': return Table({'a': v, 'b': w}).T
    raise ValueError(op)


def h_bin(ai: int, bi: int, ci: int, di: int) -> bool:
    """
    pre: 0 <= ai < ML and 0 <= bi < ML and 0 <= ci < ML and 0 <= di < ML
    pre: H.cfg('n') == 2 or (bi == 0 and di == 0)
    post: _
    """
    H.reset()
    if H.skip(locals()): return True
    op = H.cfg('op'); n = H.cfg('n')
    vl = [H.pick(MENU, ai)]; wl = [H.pick(MENU, ci)]
    if n == 2:
        vl.append(H.pick(MENU, bi)); wl.append(H.pick(MENU, di))
    if not H.concrete(_bin_body, op, vl, wl): return False
    return H.ok()


def _bin_body(op, vl, wl):
    v = Vector(vl, name='v'); w = Vector(wl, name='w')
    try:
        r = _apply(op, v, w, list(wl), wl[0])
    except (TypeError, ValueError, ZeroDivisionError, OverflowError, AttributeError):
        r = None
    if r is not None:
        why = check_truthful(r, '%s[%s] on %r, %r' % (op, H.cfg('form', ''), vl, wl))
        if why: return H.fail(why)
    why = check_truthful(v, 'left operand after %s' % op) or check_truthful(w, 'right operand after %s' % op)
    if why: return H.fail(why)
    return True


def h_un(ai: int, bi: int, ci: int) -> bool:
    """
    pre: 0 <= ai < ML and 0 <= bi < ML and 0 <= ci < ML
    pre: H.cfg('n') == 3 or ci == 0
    post: _
    """
    H.reset()
    if H.skip(locals()): return True
    op = H.cfg('op'); n = H.cfg('n')
    vl = [H.pick(MENU, ai), H.pick(MENU, bi)]
    if n == 3:
        vl.append(H.pick(MENU, ci))
    if not H.concrete(_un_body, op, vl): return False
    return H.ok()


def _un_body(op, vl):
    why = check_truthful(Vector(list(vl)), 'inferred vector')
    if why: return H.fail(why)
    v = Vector(vl, name='v')
    try:
        r = _apply(op, v, None, None, None)
    except (TypeError, ValueError, ZeroDivisionError, OverflowError, AttributeError):
        r = None
    if r is not None:
        why = check_truthful(r, '%s on %r' % (op, vl))
        if why: return H.fail(why)
    why = check_truthful(v, 'operand after %s' % op)
    if why: return H.fail(why)
    return True


def h_setitem(ai: int, bi: int, xi: int, yi: int) -> bool:
    """
    pre: 0 <= ai < ML and 0 <= bi < ML and 0 <= xi < ML and 0 <= yi < ML
    post: _
    """
    H.reset()
    if H.skip(locals()): return True
    key = H.cfg('key')
    vl = [H.pick(MENU, ai), H.pick(MENU, bi)]
    x = H.pick(MENU, xi); y = H.pick(MENU, yi)
    if not H.concrete(_set_body, key, vl, x, y): return False
    return H.ok()


def _set_body(key, vl, x, y):
    v = Vector(vl, name='v')
    try:
        if key == 0: v[0] = x                    # scalar into one cell
        elif key == 1: v[0:2] = [x, y]           # multi-value: promotion may be triggered by a later value
        elif key == 2: v[[True, True]] = [x, y]
        elif key == 3: v[[1, 0]] = [x, y]
        elif key == 4: v[Vector([0, 1])] = Vector([x, y]) if not (isinstance(x, Vector)) else None
        else: v[-1] = y
    except (TypeError, ValueError, IndexError):
        pass
    why = check_truthful(v, 'after __setitem__ form %d on %r with x=%r y=%r' % (key, vl, x, y))
    if why: return H.fail(why)
    if len(v) != 2: return H.fail('length changed')
    return True


def h_table_write(ai: int, bi: int, xi: int) -> bool:
    """
    pre: 0 <= ai < ML and 0 <= bi < ML and 0 <= xi < ML
    post: _
    """
    H.reset()
    if H.skip(locals()): return True
    form = H.cfg('form')
    a = H.pick(MENU, ai); b = H.pick(MENU, bi); x = H.pick(MENU, xi)
    if not H.concrete(_tw_body, form, a, b, x): return False
    return H.ok()


def _tw_body(form, a, b, x):
    t = Table({'p': [a, b], 'q': [1, 2]})
    try:
        if form == 0: t[0, 'p'] = x
        elif form == 1: t[1] = [x, 5]
        elif form == 2: t.p = Vector([x, b])
        else: t.p[1] = x
    except (TypeError, ValueError, IndexError):
        pass
    why = check_truthful(t, 'table after write form %d' % form)
    if why: return H.fail(why)
    return True


CSV = ['', ' ', '1', '2.5', 'x', ' 7 ', 'nan', '1e3', '007', 'True', '-', '1_0']


def h_csv(c0: int, c1: int, c2: int, short: bool) -> bool:
    """
    pre: 0 <= c0 < len(CSV) and 0 <= c1 < len(CSV) and 0 <= c2 < len(CSV)
    post: _
    """
    H.reset()
    if H.skip(locals()): return True
    from serif import read_csv
    cells = [H.pick(CSV, c0), H.pick(CSV, c1), H.pick(CSV, c2)]
    if not H.concrete(_csv_body, cells, bool(short)): return False
    return H.ok()


def _csv_body(cells, short):
    from serif import read_csv
    text = 'h,g\n' + '"%s",1\n' % cells[0] + ('"%s"\n' % cells[1] if short else '"%s",x\n' % cells[1]) + '"%s",\n' % cells[2]
    t = read_csv(io.StringIO(text))
    why = check_truthful(t, 'read_csv')
    if why: return H.fail(why)
    return True


STRS = ['a', 'B c', '', None, 'é']
DATES = [date(2020, 1, 31), None, date(1999, 12, 31)]


def h_proxy(i0: int, i1: int, which: int) -> bool:
    """
    pre: 0 <= i0 < 5 and 0 <= i1 < 5 and 0 <= which <= 9
    pre: H.fix(which=which)
    post: _
    """
    H.reset()
    if H.skip(locals()): return True
    if which < 6:
        v = Vector([H.pick(STRS, i0), H.pick(STRS, i1), 'zz'])
        r = [lambda: v.upper(), lambda: v.isalpha(), lambda: v.split(' '), lambda: v.find('c'), lambda: v.encode(), lambda: v.zfill(3)][which]()
    elif which < 8:
        v = Vector([H.pick(DATES, i0 % 3), H.pick(DATES, i1 % 3), date(2024, 2, 29)])
        r = [lambda: v.year, lambda: v + 1][which - 6]()
    else:
        v = Vector([H.pick([1, None, -5, 0, 2 ** 70], i0), H.pick([1, None, -5, 0, 2 ** 70], i1), 3])
        r = [lambda: v.bit_length(), lambda: v.real][which - 8]()
    why = check_truthful(r, 'proxy %d' % which)
    if why: return H.fail(why)
    return H.ok()


BIN_OPS = ['add', 'sub', 'mul', 'truediv', 'floordiv', 'mod', 'pow', 'eq', 'lt', 'and', 'or']
FORMS = ['vv', 'vs', 'sv', 'vl', 'lv']
BIN_OTHER = ['concat_v', 'concat_l', 'concat_s', 'rconcat_l', 'rconcat_s', 'fillna', 'table_cols', 'rshift', 'sort_table', 'left_join', 'full_join',
             'table_arith', 'table_T', 'full_join_right_extra', 'full_join_left_extra', 'full_join_all_matched', 'left_join_all_matched', 'inner_join']
UN = ['neg', 'pos', 'abs', 'invert', 'dropna', 'isna', 'to_object', 'unique', 'sort_by', 'copy', 'slice', 'mask', 'T',
      'cast_float', 'cast_int', 'cast_str', 'cast_bool', 'isinstance', 'aggregate', 'window']


def obligations(tier):
    q = tier == 'quick'
    M1 = len(MENU)
    M2 = 6 if q else 8
    bud = 90 if q else 600
    obs = []
    for op in BIN_OPS:
        for form in FORMS:
            if op in ('eq', 'lt', 'and', 'or') and form in ('sv', 'lv'):
                continue
            obs.append(dict(name='bin[%s,%s,n=1]' % (op, form), fn='h_bin', config={'op': op, 'form': form, 'n': 1, 'menu': M1}, budget=bud,
                            bounds='1-element operands, every pair from the %d-entry element menu' % M1, smoke=[[2, 0, 3, 0], [1, 0, 5, 0]]))
            if form in ('vv', 'vs', 'sv') or not q:
                obs.append(dict(name='bin[%s,%s,n=2]' % (op, form), fn='h_bin', config={'op': op, 'form': form, 'n': 2, 'menu': M2}, budget=bud,
                                bounds='2-element operands, every combination from the first %d menu entries {None,True,2,2.5,"x",..}' % M2,
                                smoke=[[2, 3, 3, 1], [0, 1, 1, 4]]))
    for op in BIN_OTHER:
        obs.append(dict(name='op2[%s,n=1]' % op, fn='h_bin', config={'op': op, 'n': 1, 'menu': M1}, budget=bud,
                        bounds='1-element operands, every pair from the %d-entry element menu' % M1, smoke=[[2, 0, 3, 0]]))
        obs.append(dict(name='op2[%s,n=2]' % op, fn='h_bin', config={'op': op, 'n': 2, 'menu': M2}, budget=bud,
                        bounds='2-element operands, every combination from the first %d menu entries' % M2, smoke=[[2, 3, 3, 1], [0, 1, 1, 4]]))
    for op in UN:
        obs.append(dict(name='op1[%s,n=2]' % op, fn='h_un', config={'op': op, 'n': 2, 'menu': M1}, budget=bud,
                        bounds='2-element vector, every pair from the %d-entry element menu' % M1, smoke=[[2, 3, 0], [0, 1, 0]]))
        if not q:
            obs.append(dict(name='op1[%s,n=3]' % op, fn='h_un', config={'op': op, 'n': 3, 'menu': 6}, budget=bud,
                            bounds='3-element vector from the first 6 menu entries', smoke=[[2, 3, 0]]))
    for key in range(6):
        obs.append(dict(name='setitem[form=%d]' % key, fn='h_setitem', config={'key': key, 'menu': 6 if q else 8}, budget=bud,
                        bounds='2-element vector and 2 written values, every combination from the first %d menu entries' % (6 if q else 8),
                        smoke=[[2, 2, 3, 4], [2, 2, 0, 0], [3, 2, 2, 1]]))
    for form in range(4):
        obs.append(dict(name='table-write[form=%d]' % form, fn='h_table_write', config={'form': form, 'menu': M1}, budget=bud,
                        bounds='2x2 table, cell / row / attribute / live-view write; column and value from the %d-entry menu' % M1, smoke=[[2, 2, 3], [2, 2, 0]]))
    obs.append(dict(name='csv', fn='h_csv', config={}, budget=120 if q else 400, bounds='3 cells from a 12-entry menu, short record symbolic', smoke=[[0, 2, 3, False]]))
    for which in range(10):
        obs.append(dict(name='proxy[%d]' % which, fn='h_proxy', config={'which': which}, budget=40, bounds='3-element str/date/int vectors from menus incl. None',
                        smoke=[[0, 3, which]]))
    return obs

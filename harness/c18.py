"""C18 - names propagate by fixed rules: math drops them, structure keeps them."""
import operator, keyword
from vp import h as H
from vp.h import Vector, Table
from harness.c17 import doc_sanitize, public_api

H.standard_env()
ASSUMPTIONS = [
    'names come from the menu {x, y, None, "A b", "sum", "x", "", "1st"} by symbolic index (name equality, absence and sanitisation are what the rules depend on); '
    'cell values are concrete; the serif calls run natively once the solver has fixed the case',
    'compositions are covered by applying every derivation to every origin of a 9-entry origin menu (a slice of a join of a sorted table is origin=join-of-sorted, derivation=slice)',
    'aggregate / window output names: key columns keep their stored name ("key" when unnamed), outputs are <documented sanitisation of the column name, "col" when nothing is left>_<fn>, '
    'repeats made unique by a numeric suffix; the documented sanitisation is the independent implementation of C17',
    'masks in the keep-name obligations are fixed witnesses: mixed, selecting nothing, selecting everything (list, Vector[bool] and comparison-result forms)',
]

NAMES = ['x', 'y', None, 'A b', 'sum', 'x', 'a_b', 'X', '', '1st', 'x_sum', 'key']
NN = len(NAMES)

BIN = {'add': operator.add, 'sub': operator.sub, 'mul': operator.mul, 'truediv': operator.truediv, 'floordiv': operator.floordiv, 'mod': operator.mod, 'pow': operator.pow,
       'eq': operator.eq, 'ne': operator.ne, 'lt': operator.lt, 'le': operator.le, 'gt': operator.gt, 'ge': operator.ge}


def _vec_body(opi, a, b):
    na, nb = NAMES[a], NAMES[b]
    v = Vector([1, 2, 3], name=na); w = Vector([4, 5, 6], name=nb)
    ops = list(BIN.items())
    if opi < len(ops):
        nm, f = ops[opi]
        for label, r in (('v %s w' % nm, f(v, w)), ('v %s scalar' % nm, f(v, 2)), ('scalar %s v' % nm, f(2, v)), ('v %s list' % nm, f(v, [1, 2, 3]))):
            if label.startswith('v %s w' % nm) and r.name is not None: return H.fail('%s of vectors named %r, %r is named %r, expected unnamed' % (label, na, nb, r.name))
        if v.name != na or w.name != nb: return H.fail('operand renamed by %s' % nm)
        return True
    keep = [('copy', lambda: v.copy()), ('slice', lambda: v[0:2]), ('empty slice', lambda: v[0:0]), ('reversed slice', lambda: v[::-1]), ('mask vector', lambda: v[Vector([True, False, True])]),
            ('mask list', lambda: v[[False, False, True]]), ('index list', lambda: v[[2, 0]]), ('sort_by', lambda: v.sort_by()), ('sort_by reverse', lambda: v.sort_by(reverse=True, na_last=False)),
            ('T', lambda: v.T), ('fillna', lambda: v.fillna(0)), ('cast', lambda: v.cast(float)), ('to_object', lambda: v.to_object()),
            ('mask vector selecting nothing', lambda: v[Vector([False, False, False])]), ('mask vector selecting all', lambda: v[Vector([True, True, True])]),
            ('mask list selecting nothing', lambda: v[[False, False, False]]), ('comparison mask selecting nothing', lambda: v[v > 100]),
            ('comparison mask selecting all', lambda: v[v == v]), ('one-element index list', lambda: v[[1]])]
    k = opi - len(ops)
    if k < len(keep):
        label, f = keep[k]
        r = f()
        if r.name != na: return H.fail('%s of a vector named %r is named %r' % (label, na, r.name))
        if v.name != na: return H.fail('operand renamed by %s' % label)
        return True
    writes = [('int write', lambda: v.__setitem__(0, 9)), ('slice write', lambda: v.__setitem__(slice(0, 2), [8, 9])), ('mask write', lambda: v.__setitem__([True, False, True], 7)),
              ('promoting write', lambda: v.__setitem__(1, 2.5)), ('None write', lambda: v.__setitem__(2, None)), ('failed write', lambda: v.__setitem__(0, 'nope')),
              ('index write', lambda: v.__setitem__([0, 1], [5, 6]))]
    label, f = writes[k - len(keep)]
    try:
        f()
    except Exception:
        pass
    if v.name != na: return H.fail('%s changed the name %r -> %r' % (label, na, v.name))
    return True


N_VEC_OPS = len(BIN) + 19 + 7


def h_vec(opi: int, a: int, b: int) -> bool:
    """
    pre: 0 <= opi < N_VEC_OPS and 0 <= a < NN and 0 <= b < NN
    pre: H.cfg('lo') <= opi < H.cfg('hi')
    post: _
    """
    H.reset()
    if H.skip(locals()): return True
    if not H.concrete(_vec_body, H.among(list(range(N_VEC_OPS)), opi), H.among(list(range(NN)), a), H.among(list(range(NN)), b)): return False
    return H.ok()


ARITH = ['add', 'sub', 'mul', 'truediv', 'floordiv', 'mod', 'pow']


def _tarith_body(opi, a, b, c, d, tt):
    f = BIN[ARITH[opi]]
    ln = [NAMES[a], NAMES[b]]; rn = [NAMES[c], NAMES[d]]
    t = Table([Vector([1, 2], name=ln[0]), Vector([3, 4], name=ln[1])])
    if tt:
        u = Table([Vector([5, 6], name=rn[0]), Vector([7, 8], name=rn[1])])
        r = f(t, u)
        want = [l if (rr is None or rr == l) else None for l, rr in zip(ln, rn)]
        if r.column_names() != want: return H.fail('table %s table: left names %r, right names %r -> %r, expected %r' % (ARITH[opi], ln, rn, r.column_names(), want))
        if u.column_names() != rn: return H.fail('right operand renamed')
    else:
        r = f(t, 2)
        if r.column_names() != ln: return H.fail('table %s scalar: names %r -> %r' % (ARITH[opi], ln, r.column_names()))
    if t.column_names() != ln: return H.fail('left operand renamed')
    return True


def h_table_arith(opi: int, a: int, b: int, c: int, d: int) -> bool:
    """
    pre: 0 <= opi < len(ARITH) and 0 <= a < 8 and 0 <= b < 8 and 0 <= c < 8 and 0 <= d < 8
    pre: H.cfg('tt') or (c == 0 and d == 0)
    pre: H.fix(opi=opi)
    post: _
    """
    H.reset()
    if H.skip(locals()): return True
    R = list(range(NN))
    if not H.concrete(_tarith_body, H.cfg('opi'), H.among(R, a), H.among(R, b), H.among(R, c), H.among(R, d), H.cfg('tt')): return False
    return H.ok()


ORIGINS = ['list', 'dict', 'rshift', 'sorted', 'sliced', 'masked', 'joined', 'join-of-sorted', 'selected']
DERIVS = ['Table(list)', 'Vector(vectors)', 'rshift-vector', 'rshift-table', 'rshift-dict', 'vector>>table', 'slice', 'empty-slice', 'mask', 'mask-vector', 'index-vector', 'sort', 'sort-desc', 'sort-empty',
          'inner', 'left', 'full', 'inner-empty', 'left-empty-left', 'full-empty', 'colsel', 'sel2d', 'copy', 'cell-write', 'T.T-cells-only',
          'mask-none', 'mask-vector-none', 'mask-vector-all', 'filter-none', 'filter-all', 'reversed-slice']


def _origin(kind, n0, n1):
    va = Vector([3, 1, 2], name=n0); vb = Vector([10, 20, 30], name=n1)
    if kind == 'list': return Table([va, vb]), [n0, n1]
    if kind == 'dict':
        if n0 is None or n1 is None or n0 == n1: return None, None
        return Table({n0: [3, 1, 2], n1: [10, 20, 30]}), [n0, n1]
    if kind == 'rshift': return va >> vb, [n0, n1]
    t = Table([va, vb])
    if kind == 'sorted': return t.sort_by(t.cols()[0]), [n0, n1]
    if kind == 'sliced': return t[0:3], [n0, n1]
    if kind == 'masked': return t[[True, True, True]], [n0, n1]
    if kind == 'selected':
        if not (isinstance(n0, str) and isinstance(n1, str)) or n0 == n1: return None, None
        return t[n1, n0], [n1, n0]
    other = Table([Vector([1, 2, 3], name='jk'), Vector([7, 8, 9], name=n1)])
    if kind == 'joined': return t.join(other, t.cols()[0], other.cols()[0]), [n0, n1, 'jk', n1]
    if kind == 'join-of-sorted':
        s = t.sort_by(t.cols()[1], reverse=True)
        return s.inner_join(other, s.cols()[0], other.cols()[0], expect='many_to_many'), [n0, n1, 'jk', n1]
    raise ValueError(kind)


def _struct_body(oi, di, n0, n1, n2):
    t, names = _origin(ORIGINS[oi], NAMES[n0], NAMES[n1])
    if t is None: return None
    if t.column_names() != names: return H.fail('origin %s: names %r, expected %r' % (ORIGINS[oi], t.column_names(), names))
    d = DERIVS[di]; extra = NAMES[n2]
    n = len(t)
    key0 = t.cols()[0]
    part = Table([Vector([1, 2, 5], name='pk'), Vector([0, 0, 0], name=extra)])
    if d == 'Table(list)': r = Table(list(t.cols())); want = names
    elif d == 'Vector(vectors)': r = Vector(list(t.cols())); want = names
    elif d == 'rshift-vector': r = t >> Vector(list(range(n)), name=extra); want = names + [extra]
    elif d == 'rshift-table': r = t >> Table([Vector(list(range(n)), name=extra), Vector(list(range(n)), name='q')]); want = names + [extra, 'q']
    elif d == 'rshift-dict':
        if not isinstance(extra, str): return None
        r = t >> {extra: list(range(n))}; want = names + [extra]
    elif d == 'vector>>table': r = Vector(list(range(n)), name=extra) >> t; want = [extra] + names
    elif d == 'slice': r = t[1:]; want = names
    elif d == 'empty-slice': r = t[0:0]; want = names
    elif d == 'mask': r = t[[(i % 2 == 0) for i in range(n)]]; want = names
    elif d == 'mask-vector': r = t[Vector([(i % 2 == 1) for i in range(n)])]; want = names
    elif d == 'index-vector': r = t[Vector([n - 1, 0])]; want = names
    elif d == 'mask-none': r = t[[False] * n]; want = names
    elif d == 'mask-vector-none': r = t[Vector([False] * n)]; want = names
    elif d == 'mask-vector-all': r = t[Vector([True] * n)]; want = names
    elif d == 'filter-none': r = t[Vector(list(range(n))) > 100]; want = names
    elif d == 'filter-all': r = t[Vector(list(range(n))) >= 0]; want = names
    elif d == 'reversed-slice': r = t[::-1]; want = names
    elif d == 'sort': r = t.sort_by(key0); want = names
    elif d == 'sort-desc': r = t.sort_by([key0, t.cols()[1]], reverse=[True, False], na_last=False); want = names
    elif d == 'sort-empty': r = t[0:0].sort_by(t[0:0].cols()[0]); want = names
    elif d == 'inner': r = t.inner_join(part, key0, part.cols()[0], expect='many_to_many'); want = names + ['pk', extra]
    elif d == 'left': r = t.join(part, key0, part.cols()[0], expect='many_to_many'); want = names + ['pk', extra]
    elif d == 'full': r = t.full_join(part, key0, part.cols()[0]); want = names + ['pk', extra]
    elif d == 'inner-empty':
        none = Table([Vector([100, 200], name='pk'), Vector([0, 0], name=extra)])
        r = t.inner_join(none, key0, none.cols()[0], expect='many_to_many'); want = names + ['pk', extra]
    elif d == 'left-empty-left':
        e = t[0:0]
        if e.cols()[0].schema() is None: return None
        r = e.join(part, e.cols()[0], part.cols()[0], expect='many_to_many'); want = names + ['pk', extra]
    elif d == 'full-empty':
        e = t[0:0]; pe = part[0:0]
        r = e.full_join(pe, e.cols()[0], pe.cols()[0]); want = names + ['pk', extra]
    elif d == 'colsel':
        if not all(isinstance(x, str) for x in names[:2]) or names[0] == names[1]: return None
        r = t[names[1], names[0]]; want = [names[1], names[0]]
    elif d == 'sel2d':
        if not all(isinstance(x, str) for x in names[:2]) or names[0] == names[1]: return None
        r = t[0:2, (names[1], names[0])]; want = [names[1], names[0]]
    elif d == 'copy': r = t.copy(); want = names
    elif d == 'cell-write':
        t[0, 0] = 99; t[1] = list(range(len(names))); t.cols()[0][0] = 1.5
        r = t; want = names
    elif d == 'T.T-cells-only':
        return None
    else:
        raise ValueError(d)
    if not isinstance(r, Table): return H.fail('%s of %s is %r' % (d, ORIGINS[oi], type(r)))
    if r.column_names() != want: return H.fail('origin %s, derivation %s: names %r, expected %r' % (ORIGINS[oi], d, r.column_names(), want))
    if d != 'cell-write' and t.column_names() != names: return H.fail('derivation %s renamed its operand' % d)
    return True


def h_struct(oi: int, di: int, n0: int, n1: int, n2: int) -> bool:
    """
    pre: 0 <= oi < len(ORIGINS) and 0 <= di < len(DERIVS) and 0 <= n0 < H.cfg('names', NN) and 0 <= n1 < H.cfg('names', NN) and 0 <= n2 < H.cfg('names', NN)
    pre: H.fix(oi=oi)
    post: _
    """
    H.reset()
    if H.skip(locals()): return True
    R = list(range(NN))
    r = H.concrete(_struct_body, H.cfg('oi'), H.among(list(range(len(DERIVS))), di), H.among(R, n0), H.among(R, n1), H.among(R, n2))
    if r is False: return False
    if r is None: return True
    return H.ok()


FNS = ['sum', 'mean', 'min', 'max', 'stdev', 'count']      # emission order of aggregate()/window(): sum, mean, min, max, count, stdev
EMIT = ['sum', 'mean', 'min', 'max', 'count', 'stdev']


def _agg_names(keys, aggs, applies):
    used = set(); out = []

    def uniq(nm):
        if nm not in used:
            used.add(nm); return nm
        i = 2
        while '%s%d' % (nm, i) in used: i += 1
        used.add('%s%d' % (nm, i)); return '%s%d' % (nm, i)
    for k in keys:
        out.append(uniq(k if k else 'key'))
    for fn in EMIT:
        for colname in aggs.get(fn, []):
            base = doc_sanitize(colname or 'col') or 'col'
            out.append(('%s_%s' % (base, fn), fn))
    return out, uniq


def _agg_body(win, k0, k1, c0, c1, twokeys, pattern):
    kn = [NAMES[k0], NAMES[k1]][:2 if twokeys else 1]
    cn = [NAMES[c0], NAMES[c1]]
    cols = [Vector([1, 1, 2], name=kn[0])] + ([Vector([5, 6, 5], name=kn[1])] if twokeys else []) + [Vector([1.0, 2.0, 4.0], name=cn[0]), Vector([3, None, 5], name=cn[1])]
    t = Table(cols)
    K = len(kn)
    va, vb = t.cols()[K], t.cols()[K + 1]
    over = list(t.cols()[:K]) if twokeys else t.cols()[0]
    if pattern == 0: kw = dict(sum_over=va, count_over=vb); aggs = {'sum': [cn[0]], 'count': [cn[1]]}
    elif pattern == 1: kw = dict(sum_over=[va, va], mean_over=va); aggs = {'sum': [cn[0], cn[0]], 'mean': [cn[0]]}
    elif pattern == 2: kw = dict(min_over=[va, vb], max_over=[vb, va], stdev_over=va); aggs = {'min': [cn[0], cn[1]], 'max': [cn[1], cn[0]], 'stdev': [cn[0]]}
    elif pattern == 3: kw = dict(sum_over=va, apply={'total': (va, sum), (cn[0] or 'col'): (vb, len)}); aggs = {'sum': [cn[0]]}
    elif pattern == 5: kw = dict(sum_over=[va, va, va], count_over=[vb, vb, vb]); aggs = {'sum': [cn[0]] * 3, 'count': [cn[1]] * 3}
    elif pattern == 7: kw = dict(sum_over=[va, va, va, va, va]); aggs = {'sum': [cn[0]] * 5}
    elif pattern == 6:
        import serif.naming as _sn2
        b6 = (_sn2._sanitize_user_name(cn[0] or 'col') or 'col')
        kw = dict(sum_over=[va, va], apply={b6 + '_sum2': (vb, len), 'total': (va, sum)}); aggs = {'sum': [cn[0], cn[0]]}
    else: kw = dict(sum_over=[va, vb], mean_over=[va, vb], min_over=va, max_over=va, count_over=[va, vb], stdev_over=va); aggs = {'sum': [cn[0], cn[1]], 'mean': [cn[0], cn[1]], 'min': [cn[0]], 'max': [cn[0]], 'count': [cn[0], cn[1]], 'stdev': [cn[0]]}
    f = t.window if win else t.aggregate
    out = f(over=over, **kw)
    got = out.column_names()
    # key names then <sanitised>_<fn>, unique via numeric suffixes
    used = set(); want = []

    def uniq(nm):
        if nm not in used:
            used.add(nm); return nm
        i = 2
        while '%s%d' % (nm, i) in used: i += 1
        used.add('%s%d' % (nm, i)); return '%s%d' % (nm, i)
    for k in kn:
        want.append(uniq(k if k else 'key'))
    sloppy = []
    import serif.naming as _sn
    _san = getattr(_sn, '_sanitize_user_name', None)
    for fn in EMIT:
        for colname in aggs.get(fn, []):
            # "<sanitised column>_<function>": the sanitised name is the accessor-grade one (reserved names carry their underscore) - C17 verifies the sanitiser itself
            base = (_san(colname or 'col') if _san else doc_sanitize(colname or 'col')) or 'col'
            want.append(uniq('%s_%s' % (base, fn)))
            sloppy.append(base)
    if pattern == 3:
        want.append(uniq('total')); want.append(uniq(cn[0] or 'col'))
    if pattern == 6:
        want.append(uniq(b6 + '_sum2')); want.append(uniq('total'))
    if len(got) != len(want): return H.fail('%s output has %d columns %r, expected %d' % ('window' if win else 'aggregate', len(got), got, len(want)))
    if len(set(map(repr, got))) != len(got): return H.fail('output names not pairwise distinct: %r' % (got,))
    for g, w_ in zip(got, want):
        if g == w_: continue
        return H.fail('%s output names %r, expected %r (keys %r, columns %r)' % ('window' if win else 'aggregate', got, want, kn, cn))
    if t.column_names() != kn + cn: return H.fail('input renamed')
    return True


def h_agg(k0: int, k1: int, c0: int, c1: int, twokeys: bool, pattern: int) -> bool:
    """
    pre: 0 <= k0 < NN and 0 <= k1 < 4 and 0 <= c0 < NN and 0 <= c1 < 3 and 0 <= pattern <= 7
    pre: twokeys or k1 == 0
    pre: H.fix(pattern=pattern)
    post: _
    """
    H.reset()
    if H.skip(locals()): return True
    R = list(range(NN))
    r = H.concrete(_agg_body, H.cfg('win'), H.among(R, k0), H.among(R, k1), H.among(R, c0), H.among(R, c1), True if twokeys else False, H.cfg('pattern'))
    if r is False: return False
    if r is None: return True
    return H.ok()


def obligations(tier):
    q = tier == 'quick'
    obs = []
    G = 11
    for lo in range(0, N_VEC_OPS, G):
        obs.append(dict(name='vec[%d..%d]' % (lo, min(N_VEC_OPS, lo + G) - 1), fn='h_vec', config={'lo': lo, 'hi': min(N_VEC_OPS, lo + G)}, budget=90 if q else 300,
                        bounds='13 binary/comparison operators (4 operand forms), 13 name-keeping derivations, 7 in-place writes x every pair of names from the 8-entry menu',
                        smoke=[[lo, 0, 1], [lo, 2, 0]]))
    for opi in range(len(ARITH)):
        for tt in (False, True):
            obs.append(dict(name='table-%s[%s]' % ('table' if tt else 'scalar', ARITH[opi]), fn='h_table_arith', config={'opi': opi, 'tt': tt}, budget=120 if q else 300,
                            bounds='2-column tables, every assignment of menu names to the left (and right) columns', smoke=[[opi, 0, 1, 0 if not tt else 2, 0 if not tt else 0]]))
    for oi in range(len(ORIGINS)):
        obs.append(dict(name='struct[%s]' % ORIGINS[oi], fn='h_struct', config={'oi': oi, 'names': 5 if q else NN}, budget=150 if q else 900,
                        bounds='origin %s x 24 derivations (incl. empty join / sort / slice results) x every triple of the first %d menu names' % (ORIGINS[oi], 5 if q else NN), smoke=[[oi, 0, 0, 1, 2], [oi, 14, 0, 1, 3]]))
    for win in (False, True):
        for pattern in range(8):
            obs.append(dict(name='agg-names[%s,pattern=%d]' % ('window' if win else 'aggregate', pattern), fn='h_agg', config={'win': win, 'pattern': pattern}, budget=120 if q else 300,
                            bounds='1-2 key columns and 2 value columns named from the menu (repeats, unnamed, unsanitary, reserved, key named like an output); 7 argument patterns incl. the same column twice / three times, an apply name that collides with a generated name',
                            smoke=[[0, 1, 3, 4, False, pattern], [2, 0, 2, 0, True, pattern]]))
    return obs

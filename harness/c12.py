"""C12 - group-by aggregation: one row per key in first-appearance order, correct values.
(C13 re-uses this module with win=True.)"""
import math
from typing import Optional
from vp import h as H
from vp.h import Vector, Table

H.standard_env()
ASSUMPTIONS = [
    'rows <= 3 (quick) / 4 (thorough); 1-2 partition key columns in canonical form (one representative per equality pattern of the key cells, one class optionally None), '
    'rendered as int / str / date; keys given by name, by column vector or by an external vector not stored in the table',
    'sum / count / min / max: values are unbounded symbolic Optional[int]; mean / stdev: concrete power-of-two witnesses with solver-chosen keys and None mask, compared with '
    'math.isclose(rel_tol=1e-12) (symbolic float division costs ~10 s per path here)',
    'PYTHONHASHSEED swept over {0,1,2} for str keys',
]


def groups_of(keys):
    """First-appearance order: list of (key, [row indices])."""
    out = []
    for i, k in enumerate(keys):
        for g in out:
            if g[0] == k:
                g[1].append(i)
                break
        else:
            out.append((k, [i]))
    return out


def agg_expected(fn, vals):
    clean = [v for v in vals if v is not None]
    if fn == 'sum': return sum(clean)
    if fn == 'count': return len(clean)
    if fn == 'min': return min(clean) if clean else None
    if fn == 'max': return max(clean) if clean else None
    if fn == 'mean': return (sum(clean) / len(clean)) if clean else None
    if fn == 'stdev':
        if len(clean) < 2: return None
        mu = sum(clean) / len(clean)
        return (sum((v - mu) ** 2 for v in clean) / (len(clean) - 1)) ** 0.5
    raise ValueError(fn)


def close(a, b):
    if a is None or b is None:
        return a is None and b is None
    if isinstance(a, float) or isinstance(b, float):
        return math.isclose(a, b, rel_tol=1e-12, abs_tol=1e-15)
    return H.same(a, b)


ORDER = ['sum', 'mean', 'min', 'max', 'count', 'stdev']     # the order in which aggregate()/window() emit their built-in outputs


def _pre(k0, k1, k2, k3, j0, j1, j2, j3, nc, nc2):
    c = H.CONFIG
    n, K = c['n'], c.get('K', 1)
    ks = [k0, k1, k2, k3]; js = [j0, j1, j2, j3]
    for i in range(4):
        if i >= n and not (ks[i] == 0 and js[i] == 0):
            return False
    if not H.rgs_ok(ks[:n]): return False
    if K >= 2:
        if not H.rgs_ok(js[:n]): return False
    else:
        if not (j0 == 0 and j1 == 0 and j2 == 0 and j3 == 0 and nc2 == -1): return False
    if not c.get('nones', True) and (nc != -1 or nc2 != -1): return False
    return -1 <= nc <= 4 and -1 <= nc2 <= 4


def _body(ks, js, vals, nc, nc2):
    """ks/js: key class numbers (symbolic or concrete), vals: value cells."""
    c = H.CONFIG
    n, K, win = c['n'], c.get('K', 1), c.get('win', False)
    spec = c.get('spec', 'name'); fns = c['fns']
    KC = [H.render_keys(ks[:n], c.get('ktype', 'int'), nc)]
    if K >= 2:
        KC.append(H.render_keys(js[:n], c.get('ktype2', 'int'), nc2))
    knames = ['g', 'h'][:K]
    vals = list(vals[:n])
    cols = [Vector(list(kc), name=nm) for kc, nm in zip(KC, knames)] + [Vector(list(vals), name='v'), Vector(list(range(n)), name='pos')]
    if spec in ('ext', 'extnamed'):
        cols = cols[K:]       # the key vectors are not stored in the table
    if spec == 'extnamed':
        knames = ['pos', 'v'][:K]     # ... and carry the NAMES of stored columns that hold other values: a key given as a vector is that vector
    t = Table(cols) if cols and n > 0 else Table({nm: [] for nm in (knames if spec not in ('ext', 'extnamed') else []) + ['v', 'pos']})
    if n == 0 and spec in ('ext', 'extnamed'):
        return None
    before = H.snap(t)
    if spec == 'name':
        over = knames if K > 1 else 'g'
    elif spec == 'col':
        over = [t[nm] for nm in knames] if K > 1 else t['g']
    else:
        over = [Vector(list(kc), name=nm) for kc, nm in zip(KC, knames)]
        over = over if K > 1 else over[0]
    kw = {}
    argform = c.get('argform', 'plain')
    for fn in fns:
        a_ = 'v' if spec != 'col' else t['v']
        kw[fn + '_over'] = a_ if argform == 'plain' else ([a_] if argform == 'list' else (a_,))
    if argform != 'plain' and spec == 'name' and K > 1:
        over = tuple(over) if argform == 'tuple' else list(over)
    calls = []
    if c.get('apply'):
        def rec(values):
            calls.append(list(values))
            return len(values)
        kw['apply'] = {'cnt': ('v', rec)}
        if c.get('apply') == 2:
            # a second entry on another column with another function: every entry keeps its own column and function
            kw['apply']['firstpos'] = ('pos', lambda values: values[0])
    f = t.window if win else t.aggregate
    out = f(over=over, **kw)
    if not isinstance(out, Table): return H.fail('returned %r' % (type(out),))
    keys = [tuple(kc[i] for kc in KC) for i in range(n)]
    grp = groups_of(keys)
    rows = H.rows_of(out)
    emitted = [fn for fn in ORDER if fn in fns]
    if n == 0:
        if len(out) != 0: return H.fail('empty input gave %d rows' % len(out))
    elif win:
        if len(rows) != n: return H.fail('window returned %d rows for %d input rows' % (len(rows), n))
        for i in range(n):
            row = rows[i]
            if not H.same_list(row[:K], keys[i]): return H.fail('window row %d: key cells %r, input keys %r' % (i, row[:K], keys[i]))
            members = [vals[j] for j in range(n) if keys[j] == keys[i]]
            for p, fn in enumerate(emitted):
                want = agg_expected(fn, members)
                if not close(row[K + p], want): return H.fail('window %s at row %d (key %r, group values %r): %r, expected %r' % (fn, i, keys[i], members, row[K + p], want))
            if c.get('apply') and row[K + len(emitted)] != len(members): return H.fail('window apply at row %d: %r' % (i, row[K + len(emitted)]))
            if c.get('apply') == 2 and row[K + len(emitted) + 1] != min(j for j in range(n) if keys[j] == keys[i]):
                return H.fail('window: second apply entry (first row position of the group) at row %d is %r' % (i, row[K + len(emitted) + 1]))
        # agreement with serif's own aggregate, joined back on the key
        agg = t.aggregate(over=over, **{k_: v_ for k_, v_ in kw.items() if k_ != 'apply'})
        arows = H.rows_of(agg)
        for i in range(n):
            match = [ar for ar in arows if H.same_list(ar[:K], keys[i])]
            if len(match) != 1: return H.fail('aggregate has %d rows for key %r' % (len(match), keys[i]))
            for p in range(len(emitted)):
                if not close(rows[i][K + p], match[0][K + p]): return H.fail('window and aggregate disagree at row %d: %r vs %r' % (i, rows[i], match[0]))
    else:
        if len(rows) != len(grp): return H.fail('aggregate returned %d rows for %d distinct keys %r' % (len(rows), len(grp), keys))
        for row, (k, idx) in zip(rows, grp):
            if not H.same_list(row[:K], k): return H.fail('aggregate rows not in first-appearance order / wrong keys: got %r, expected key %r (keys %r)' % (row, k, keys))
            members = [vals[j] for j in idx]
            for p, fn in enumerate(emitted):
                want = agg_expected(fn, members)
                if not close(row[K + p], want): return H.fail('aggregate %s for key %r (group values %r): %r, expected %r' % (fn, k, members, row[K + p], want))
            if c.get('apply') == 2 and row[K + len(emitted) + 1] != idx[0]:
                return H.fail('aggregate: second apply entry (first row position of the group) for key %r is %r, expected %r' % (k, row[K + len(emitted) + 1], idx[0]))
    if c.get('apply') and n:
        want_calls = [[vals[j] for j in idx] for _, idx in grp]
        got_calls = calls if not win else calls[:len(grp)]
        if len(calls) != len(grp): return H.fail('apply called %d times for %d groups' % (len(calls), len(grp)))
        for gc, wc in zip(got_calls, want_calls):
            if not H.same_list(gc, wc): return H.fail('apply received %r, expected the group values %r in row order' % (calls, want_calls))
    if n:
        exp_names = knames + ['v_' + fn for fn in emitted] + (['cnt'] if c.get('apply') else []) + (['firstpos'] if c.get('apply') == 2 else [])
        if out.column_names() != exp_names: return H.fail('output columns %r, expected %r' % (out.column_names(), exp_names))
    if not H.snap_eq(before, H.snap(t)): return H.fail('input table modified')
    why = H.rect(out) or H.all_truthful(out)
    if why: return H.fail(why)
    return True


def h_agg_int(k0: int, k1: int, k2: int, k3: int, j0: int, j1: int, j2: int, j3: int,
              v0: Optional[int], v1: Optional[int], v2: Optional[int], v3: Optional[int], nc: int, nc2: int) -> bool:
    """
    pre: _pre(k0, k1, k2, k3, j0, j1, j2, j3, nc, nc2)
    pre: all(v is None for v in [v0, v1, v2, v3][H.cfg('n'):])
    post: _
    """
    H.reset()
    if H.skip(locals()): return True
    r = _body([k0, k1, k2, k3], [j0, j1, j2, j3], [v0, v1, v2, v3], nc, nc2)
    if r is None: return True
    if r is False: return False
    return H.ok()


W = [1, 2, 4, 8]
DOM = [-1, 0, 1, 2, 3, 4]


def h_agg_float(k0: int, k1: int, k2: int, k3: int, j0: int, j1: int, j2: int, j3: int, m0: bool, m1: bool, m2: bool, m3: bool, nc: int, nc2: int) -> bool:
    """
    pre: _pre(k0, k1, k2, k3, j0, j1, j2, j3, nc, nc2)
    post: _
    """
    H.reset()
    if H.skip(locals()): return True
    n = H.cfg('n')
    ks = [H.among(DOM, k) for k in (k0, k1, k2, k3)]
    js = [H.among(DOM, k) for k in (j0, j1, j2, j3)]
    base = H.cfg('witness', W)
    vals = [None if m else base[i] for i, m in enumerate([m0, m1, m2, m3])][:n] + [None] * (4 - n)
    r = H.concrete(_body, ks, js, vals, H.among(DOM, nc), H.among(DOM, nc2))
    if r is None: return True
    if r is False: return False
    return H.ok()


def _same_name_body(keys, mask, win, names):
    a = [None if m else w for m, w in zip(mask, [1, 2, 4, 8])]
    b = [16, 32, 64, 128]
    cols = [Vector(list(keys), name='g'), Vector(a, name=names[0]), Vector(b, name=names[1])]
    t = Table(cols)
    f = t.window if win else t.aggregate
    out = f(over=t.cols()[0], sum_over=[t.cols()[1], t.cols()[2]], max_over=[t.cols()[2], t.cols()[1]])
    rows = H.rows_of(out)
    grp = groups_of([(k,) for k in keys])
    for i in range(len(keys) if win else len(grp)):
        k = (keys[i],) if win else grp[i][0]
        idx = [j for j in range(len(keys)) if keys[j] == k[0]]
        want = (k[0], agg_expected('sum', [a[j] for j in idx]), agg_expected('sum', [b[j] for j in idx]), agg_expected('max', [b[j] for j in idx]), agg_expected('max', [a[j] for j in idx]))
        if not H.same_list(rows[i], want): return H.fail('%s with two value columns named %r: row %r, expected %r (keys %r)' % ('window' if win else 'aggregate', names, rows[i], want, keys))
    if len(set(map(repr, out.column_names()))) != len(out.column_names()): return H.fail('output names repeat: %r' % (out.column_names(),))
    return True


def h_same_name(k0: int, k1: int, k2: int, k3: int, m0: bool, m1: bool, m2: bool, m3: bool, nm: int) -> bool:
    """
    pre: H.rgs_ok([k0, k1, k2, k3]) and 0 <= nm <= 2
    post: _
    """
    H.reset()
    if H.skip(locals()): return True
    keys = [H.among([0, 1, 2, 3], k) for k in (k0, k1, k2, k3)]
    mask = [True if m else False for m in (m0, m1, m2, m3)]
    names = H.pick([('v', 'v'), (None, None), ('v', 'w')], nm)
    if not H.concrete(_same_name_body, keys, mask, H.cfg('win'), names): return False
    return H.ok()


def h_agg_keycol(k0: int, k1: int, k2: int, nc: int) -> bool:
    """
    pre: H.rgs_ok([k0, k1, k2]) and -1 <= nc <= 2
    post: _
    """
    # the aggregated column IS the partition key column (count / min / max / sum of the key per group; the None group counts 0)
    H.reset()
    if H.skip(locals()): return True
    ks = H.render_keys([k0, k1, k2], 'int', nc)
    t = Table({'g': ks, 'w': [1, 2, 3]})
    f = t.window if H.cfg('win') else t.aggregate
    out = f(over='g', count_over='g', sum_over='g', max_over=t['g'])
    rows = H.rows_of(out)
    grp = groups_of([(k,) for k in ks])
    for i in range(3 if H.cfg('win') else len(grp)):
        k = ks[i] if H.cfg('win') else grp[i][0][0]
        members = [x for x in ks if x == k or (x is None and k is None)]
        want = (k, agg_expected('sum', members), agg_expected('max', members), agg_expected('count', members))
        if not H.same_list(rows[i], want): return H.fail('aggregating the key column itself: row %r, expected %r (keys %r)' % (rows[i], want, ks))
    return H.ok()


def h_reduce_agree(v0: Optional[int], v1: Optional[int], v2: Optional[int], n: int) -> bool:
    """
    pre: 1 <= n <= 3
    pre: any(v is not None for v in [v0, v1, v2][:n])
    post: _
    """
    H.reset()
    if H.skip(locals()): return True
    vals = H.take([v0, v1, v2], n)
    t = Table({'g': [0] * n, 'v': vals})
    out = t.aggregate(over='g', sum_over='v', min_over='v', max_over='v', count_over='v')
    row = H.rows_of(out)[0]
    v = Vector(vals)
    if not H.same(v.sum(), row[1]): return H.fail('Vector.sum %r vs aggregate %r' % (v.sum(), row[1]))
    if not H.same(v.min(), row[2]): return H.fail('Vector.min %r vs aggregate %r' % (v.min(), row[2]))
    if not H.same(v.max(), row[3]): return H.fail('Vector.max %r vs aggregate %r' % (v.max(), row[3]))
    if len([e for e in vals if e is not None]) != row[4]: return H.fail('count')
    return H.ok()


def _reduce_float_body(mask, n, witness):
    vals = [None if mask[i] else witness[i] for i in range(n)]
    if all(v is None for v in vals): return None
    t = Table({'g': ['x'] * n, 'v': vals})
    row = H.rows_of(t.aggregate(over='g', mean_over='v', stdev_over='v', sum_over='v'))[0]
    v = Vector(vals)
    if not close(v.sum(), row[1]) or not close(v.mean(), row[2]) or not close(v.stdev(), row[3]):
        return H.fail('vector reductions %r / %r / %r vs single-group aggregate %r on %r' % (v.sum(), v.mean(), v.stdev(), row, vals))
    return True


def h_reduce_float(m0: bool, m1: bool, m2: bool, m3: bool, n: int) -> bool:
    """
    pre: 1 <= n <= 4
    post: _
    """
    H.reset()
    if H.skip(locals()): return True
    mask = [True if m else False for m in (m0, m1, m2, m3)]
    r = H.concrete(_reduce_float_body, mask, H.among([1, 2, 3, 4], n), H.cfg('witness'))
    if r is False: return False
    if r is None: return True
    return H.ok()


def obligations(tier, win=False, prefix='agg'):
    q = tier == 'quick'
    obs = []
    N = 3 if q else 4

    def add(fn, n, name, **kw):
        c = {'n': n, 'K': 1, 'win': win, 'spec': 'name', 'ktype': 'int', 'fns': ['sum', 'count']}
        hs = kw.pop('hashseed', 0)
        c.update(kw)
        big = n >= 4 or c['K'] == 2
        z = [0] * 8
        sm = []
        if fn == 'h_agg_int':
            sm = [[0, 1, 0, 0][:n] + [0] * (4 - n) + z[:4] + ([5, None, 7, 1][:n] + [None] * (4 - n)) + [-1, -1]]
            if n >= 2:
                sm.append([0, 1, 1, 2][:n] + [0] * (4 - n) + z[:4] + ([None, 2, 3, 4][:n] + [None] * (4 - n)) + [1, -1])
        else:
            sm = [[0, 1, 0, 0][:n] + [0] * (4 - n) + z[:4] + [False, True, False, False] + [-1, -1]]
        obs.append(dict(name='%s[%s]' % (prefix, name), fn=fn, config=c, hashseed=hs, budget=(150 if big else 100) if q else (1500 if big else 500),
                        bounds='%d rows, K=%d key column(s) (%s) in canonical form incl. a None class, keys by %s, outputs %s%s'
                        % (n, c['K'], c['ktype'], c['spec'], '+'.join(c['fns']), ' + apply' if c.get('apply') else ''), smoke=sm))
    for n in range(0, N + 1):
        add('h_agg_int', n, 'sum+count,n=%d' % n)
        add('h_agg_int', n, 'min+max,n=%d' % n, fns=['min', 'max'])
    add('h_agg_int', 3, 'all-int+apply,n=3', fns=['sum', 'min', 'max', 'count'], apply=True)
    add('h_agg_int', 2, 'apply,n=2', fns=['count'], apply=True)
    add('h_agg_int', 3, 'two apply entries,n=3', fns=['sum'], apply=2)
    add('h_agg_int', 3, 'K=2,n=3', K=2, nones=False)
    add('h_agg_int', 2, 'K=2,n=2,nones', K=2)
    for sp in ('col', 'ext', 'extnamed'):
        add('h_agg_int', 3, 'spec=%s,n=3' % sp, spec=sp)
    add('h_agg_int', 2, 'K=2,spec=extnamed,n=2', K=2, spec='extnamed', nones=False, fns=['sum'])
    for af in ('list', 'tuple'):
        add('h_agg_int', 3, 'args as %s,n=3' % af, argform=af, fns=['sum', 'max'])
        add('h_agg_int', 2, 'args as %s,K=2,n=2' % af, argform=af, K=2, nones=False, fns=['count'])
    add('h_agg_int', 3, 'K=2,spec=ext,n=3', K=2, spec='ext', nones=False, fns=['sum'])
    for kt in ('str', 'date', 'hashy'):
        add('h_agg_int', 3, 'ktype=%s,n=3' % kt, ktype=kt)
    for seed in (1, 2):
        add('h_agg_int', 3, 'ktype=str,n=3,seed=%d' % seed, ktype='str', hashseed=seed)
    for n in range(1, 5):
        add('h_agg_float', n, 'mean+stdev,n=%d' % n, fns=['mean', 'stdev'], witness=W)
        add('h_agg_float', n, 'all6,n=%d,floats' % n, fns=['sum', 'mean', 'min', 'max', 'count', 'stdev'], witness=[0.5, -2.0, 4.0, 0.25], apply=True)
        if n >= 2:
            add('h_agg_float', n, 'mean+stdev,n=%d,large offset' % n, fns=['mean', 'stdev'], witness=[100000001.0, 100000002.0, 100000004.0, 100000008.0])
    add('h_agg_float', 3, 'mean+stdev,K=2,n=3', K=2, nones=False, fns=['mean', 'stdev'], witness=W)
    obs.append(dict(name='%s[aggregates of the key column itself]' % prefix, fn='h_agg_keycol', config={'win': win}, budget=90 if q else 300,
                    bounds='3 rows, every key pattern incl. a None class; count / sum / max taken over the partition key column itself', smoke=[[0, 1, 0, 1], [0, 0, 1, -1]]))
    obs.append(dict(name='%s[two value columns, same / missing names]' % prefix, fn='h_same_name', config={'win': win}, budget=120 if q else 300,
                    bounds='4 rows, every key pattern x None mask; two different value columns carrying the same name, no name, or different names, each aggregated twice',
                    smoke=[[0, 1, 0, 1, False, True, False, False, 0]]))
    if not win:
        obs.append(dict(name='reduce-agree[int]', fn='h_reduce_agree', config={}, budget=100 if q else 300,
                        bounds='1..3 unbounded symbolic Optional[int] with at least one non-None: Vector.sum/min/max == single-group aggregate', smoke=[[1, None, 3, 3]]))
        for wname, wit in (('ints', W), ('floats', [0.5, -2.0, 4.0, 0.25])):
            obs.append(dict(name='reduce-agree[%s]' % wname, fn='h_reduce_float', config={'witness': wit}, budget=60,
                            bounds='1..4 concrete witnesses under every None mask: Vector.sum/mean/stdev == single-group aggregate (isclose)', smoke=[[False, True, False, False, 4]]))
    if not q:
        add('h_agg_int', 4, 'K=2,n=4', K=2, nones=False)
        add('h_agg_int', 4, 'all-int+apply,n=4', fns=['sum', 'min', 'max', 'count'], apply=True)
        add('h_agg_int', 4, 'spec=ext,n=4', spec='ext')
    return obs

"""C08 - in-place assignment matches list assignment, promotes or rejects, and is atomic."""
from typing import Optional
from datetime import date, datetime
from vp import h as H
from vp.h import Vector, Table, DataType
from serif.errors import SerifTypeError

H.standard_env()
ASSUMPTIONS = [
    'vector length <= 3 (quick) / 4 (thorough); element and written values are unbounded symbolic ints for the key-form obligations; '
    'the promotion matrix and the fault-injection obligations use concrete representatives chosen by symbolic index and run natively once chosen',
    'slice keys: start/stop symbolic in [-(n+1), n+1] or None, step concrete per job; index-list entries symbolic in [-(n+1), n+1]',
    'a bool column receiving an int/float/complex value may either widen or reject with SerifTypeError (the statement does not say which); '
    'every other cell of the kind matrix is asserted exactly',
    'a failing table row/region assignment is only required to leave every single column either fully written or untouched (per-column atomicity)',
]


def engine_b(tier):
    from vp import engine_smt
    return engine_smt.slice_lemma(tier, 'C08')


def _state(v):
    return (list(v), v.schema(), v.name, len(v))


def _unchanged(v, st):
    return H.same_list(list(v), st[0]) and v.schema() == st[1] and v.name == st[2] and len(v) == st[3]


# ------------------------------------------------------------------ key forms x value forms, ints
def h_assign_int(a: int, b: int, c: int, x: int, y: int, z: int, i: int, j: int, k: int, m0: bool, m1: bool, m2: bool,
                 lo: Optional[int], hi: Optional[int], vlen: int) -> bool:
    """
    pre: -4 <= i <= 4 and -4 <= j <= 4 and -4 <= k <= 4
    pre: lo is None or -4 <= lo <= 4
    pre: hi is None or -4 <= hi <= 4
    pre: 0 <= vlen <= 4
    pre: H.usable(i, j, k, lo, hi, m0, m1, m2, vlen)
    post: _
    """
    H.reset()
    if H.skip(locals()): return True
    n = H.cfg('n'); key = H.cfg('key'); val = H.cfg('val')
    vl = [a, b, c][:n]
    v = Vector(vl, name='nm') if n else Vector([], dtype=int, name='nm')
    st = _state(v)
    model = list(vl)
    # ---- the key, and the positions it addresses in order (None => the key itself is invalid)
    if key == 'int':
        kobj = i
        pos = [i + n if i < 0 else i] if -n <= i < n else None
        scalar_only = True
    elif key == 'slice':
        kobj = slice(lo, hi, H.cfg('step'))
        pos = list(range(*kobj.indices(n)))
        scalar_only = False
    elif key in ('mask-vector', 'mask-list'):
        bits = [True if m0 else False, True if m1 else False, True if m2 else False][:H.cfg('mlen', n)]
        if len(bits) == 0: return True       # an empty list is not a mask
        kobj = Vector(bits) if key == 'mask-vector' else list(bits)
        pos = [p for p, bt in enumerate(bits) if bt] if len(bits) == n else None
        scalar_only = False
    else:
        idx = [i, j, k][:H.cfg('klen', 2)]
        if len(idx) == 0: return True
        kobj = Vector(idx) if key == 'index-vector' else (list(idx) if key == 'index-list' else tuple(idx))
        pos = [p + n if p < 0 else p for p in idx] if all(-n <= p < n for p in idx) else None
        scalar_only = False
    # ---- the value
    if val == 'scalar':
        value = x
        new = None if pos is None else [x] * len(pos)
    else:
        seq = H.take([x, y, z, x], vlen)
        value = Vector(seq) if val == 'vector' else (list(seq) if val == 'list' else tuple(seq))
        if val == 'vector' and vlen == 0: value = Vector([], dtype=int)
        if scalar_only:
            return True      # v[i] = sequence is a nested store; not part of the statement
        new = seq if (pos is not None and len(seq) == len(pos)) else None
    try:
        v[kobj] = value
        raised = None
    except Exception as e:
        raised = e
    if new is None:
        if raised is None: return H.fail('invalid assignment accepted: key %r value %r on %r -> %r' % (kobj, value, vl, list(v)))
        if not _unchanged(v, st): return H.fail('failed assignment changed the vector: %r -> %r' % (vl, list(v)))
        return H.ok()
    if raised is not None: return H.fail('valid assignment key %r value %r on %r raised %r' % (kobj, value, vl, raised))
    for p, w in zip(pos, new):
        model[p] = w
    if not H.same_list(list(v), model): return H.fail('key %r value %r on %r gave %r, list model %r' % (kobj, value, vl, list(v), model))
    if len(v) != n or v.name != 'nm': return H.fail('length or name changed')
    if v.schema() != st[1]: return H.fail('dtype changed by an int write: %r -> %r' % (st[1], v.schema()))
    return H.ok()


def _usable(i, j, k, lo, hi, m0, m1, m2, vlen):
    """Pins the parameters a given (key, val) form does not use, so that unused symbolic inputs do not multiply paths."""
    args = dict(i=i, j=j, k=k, lo=lo, hi=hi, m0=m0, m1=m1, m2=m2, vlen=vlen)
    n = H.cfg('n'); key = H.cfg('key'); val = H.cfg('val')
    ok = True
    if key != 'int' and not key.startswith('index'):
        ok = ok and args['i'] == 0
    if not key.startswith('index') or H.cfg('klen', 2) < 2:
        ok = ok and args['j'] == 0
    if not key.startswith('index') or H.cfg('klen', 2) < 3:
        ok = ok and args['k'] == 0
    if key != 'slice':
        ok = ok and args['lo'] is None and args['hi'] is None
    if not key.startswith('mask'):
        ok = ok and (not args['m0']) and (not args['m1']) and (not args['m2'])
    if val == 'scalar':
        ok = ok and args['vlen'] == 0
    elif H.cfg('vlen') is not None:
        ok = ok and args['vlen'] == H.cfg('vlen')
    return ok


H.usable = _usable


# ------------------------------------------------------------------ promotion matrix (native once chosen)
KINDS = {
    'bool': [True, False], 'int': [3, -4], 'float': [2.5, -1.0], 'complex': [1 + 2j, 3j], 'str': ['a', 'bb'],
    'date': [date(2020, 1, 2), date(1999, 12, 31)], 'datetime': [datetime(2020, 1, 2, 3, 4), datetime(2000, 1, 1)], 'object': [1, 'x'],
}
PYT = {'bool': bool, 'int': int, 'float': float, 'complex': complex, 'str': str, 'date': date, 'datetime': datetime, 'object': object}
VALS = [None, True, 7, 1.5, 2 - 1j, 'zz', date(2021, 5, 6), datetime(2021, 5, 6, 7, 8)]
VKIND = [None, 'bool', 'int', 'float', 'complex', 'str', 'date', 'datetime']
_NUM = ['bool', 'int', 'float', 'complex']


def outcome(col, vk):
    """'accept' | 'widen' | 'reject' | 'either' for writing a value of kind vk into a column of kind col."""
    if vk is None or col == 'object' or vk == col:
        return 'accept'
    if col in _NUM and vk in _NUM:
        if _NUM.index(vk) < _NUM.index(col):
            return 'accept'
        return 'either' if col == 'bool' else 'widen'
    if col == 'datetime' and vk == 'date':
        return 'accept'
    if col == 'date' and vk == 'datetime':
        return 'widen'
    return 'reject'


def _convert(e, target):
    if e is None: return None
    if target == 'float': return float(e)
    if target == 'complex': return complex(e)
    if target == 'datetime': return e if isinstance(e, datetime) else datetime.combine(e, datetime.min.time())
    if target == 'int': return int(e)
    return e


def _promote_body(col, nullable_none, form, vi, wi):
    base = list(KINDS[col])
    old = [base[0], None, base[1]] if nullable_none else [base[0], base[1], base[0]]
    v = Vector(old, dtype=(DataType(object, nullable=nullable_none) if col == 'object' else None), name='nm')
    if v.schema().kind is not PYT[col]: return H.fail('setup: %r inferred as %r' % (old, v.schema()))
    st = _state(v); fp = v.fingerprint()
    x, xk = VALS[vi], VKIND[vi]
    y, yk = VALS[wi], VKIND[wi]
    if form == 'single':
        vals = [x]; kinds = [xk]; key = 0; pos = [0]
    elif form == 'pair-slice':
        vals = [x, y]; kinds = [xk, yk]; key = slice(0, 2); pos = [0, 1]
    elif form == 'pair-slice-vector':
        vals = [x, y]; kinds = [xk, yk]; key = slice(0, 2); pos = [0, 1]
    elif form == 'pair-index':
        vals = [x, y]; kinds = [xk, yk]; key = [2, 0]; pos = [2, 0]
    elif form == 'mask-scalar':
        vals = [x, x]; kinds = [xk, xk]; key = [True, False, True]; pos = [0, 2]
    else:
        raise ValueError(form)
    # expected outcome: fold the values over the column kind
    cur = col; verdict = 'accept'; lenient = False
    for kd in kinds:
        o = outcome(cur, kd)
        if o == 'either':
            lenient = True; o = 'widen'
        if o == 'reject':
            verdict = 'reject'
            break
        if o == 'widen':
            verdict = 'widen'; cur = kd
    try:
        if form == 'single': v[key] = x
        elif form == 'mask-scalar': v[key] = x
        elif form == 'pair-slice-vector':
            src = Vector(list(vals))
            if not isinstance(src, Vector) or type(src).__name__ == 'Table': return None
            v[key] = src
        else: v[key] = list(vals)
        raised = None
    except Exception as e:
        raised = e
    if raised is not None:
        if not _unchanged(v, st) or v.fingerprint() != fp:
            return H.fail('%s column, %s write of %r raised %r but changed the vector: %r -> %r (%r)' % (col, form, vals, raised, old, list(v), v.schema()))
        if verdict == 'reject' or lenient:
            if not isinstance(raised, SerifTypeError): return H.fail('%s column, write of %r rejected with %r, expected SerifTypeError' % (col, vals, raised))
            return True
        return H.fail('%s column, %s write of %r (kinds %r) raised %r, expected %s' % (col, form, vals, kinds, raised, verdict))
    if verdict == 'reject':
        return H.fail('%s column accepted incompatible values %r: now %r typed %r' % (col, vals, list(v), v.schema()))
    want = [_convert(e, cur) if cur != col else e for e in old]
    for p, w in zip(pos, vals):
        want[p] = w
    got = list(v)
    for g, w in zip(got, want):
        if not (H.same(g, w) or (g is not None and w is not None and g == w and not isinstance(g, str))):
            return H.fail('%s column, %s write of %r: contents %r, expected %r' % (col, form, vals, got, want))
    sch = v.schema()
    if sch.kind is not PYT[cur]: return H.fail('%s column after writing %r reports %r, expected kind %s' % (col, vals, sch, cur))
    if cur != col:
        for p, e in enumerate(got):
            if p not in pos and e is not None and type(e) is not PYT[cur]:
                return H.fail('existing element %r was not converted to %s' % (e, cur))
    if (None in got) != sch.nullable and (None in got): return H.fail('holds None but reports %r' % (sch,))
    if (None in vals) and not sch.nullable: return H.fail('None written but column reports %r' % (sch,))
    if v.name != 'nm' or len(v) != 3: return H.fail('name/length changed')
    t = H.truthful(v)
    if t: return H.fail(t)
    return True


def h_promote(vi: int, wi: int, nn: bool) -> bool:
    """
    pre: 0 <= vi < len(VALS) and 0 <= wi < len(VALS)
    pre: H.cfg('form') in ('pair-slice', 'pair-index', 'pair-slice-vector') or wi == 0
    post: _
    """
    H.reset()
    if H.skip(locals()): return True
    R = list(range(len(VALS)))
    r = H.concrete(_promote_body, H.cfg('col'), True if nn else False, H.cfg('form'), H.pick(R, vi), H.pick(R, wi))
    if r is False: return False
    if r is None: return True
    return H.ok()


# ------------------------------------------------------------------ atomicity under faults
class Boom(Exception):
    pass


class EvilSeq(list):
    """A list whose __len__ / __iter__ / k-th __next__ raises (fault injected while the value is consumed)."""
    def __init__(self, data, fail_len, fail_iter, fail_next):
        super().__init__(data)
        self.fl, self.fi, self.fn = fail_len, fail_iter, fail_next
        self.len_calls = 0

    def __len__(self):
        self.len_calls += 1
        if self.fl and self.len_calls >= self.fl: raise Boom('len')
        return super().__len__()

    def __iter__(self):
        if self.fi: raise Boom('iter')
        data = list(super().__iter__())

        def gen():
            for p, e in enumerate(data):
                if self.fn is not None and p == self.fn: raise Boom('next')
                yield e
        return gen()


def _atomic_body(kind, keyform, fault, where):
    old = {'int': [1, 2, 3], 'float': [1.5, 2.5, 3.5], 'str': ['a', 'b', 'c'], 'intn': [1, None, 3]}[kind]
    v = Vector(old, name='nm')
    st = _state(v); fp = v.fingerprint()
    good = {'int': [10, 20, 30], 'float': [10.5, 2, 30.5], 'str': ['x', 'y', 'z'], 'intn': [10, None, 30]}[kind]
    key = {'slice': slice(0, 3), 'mask': [True, True, True], 'index': [2, 0, 1], 'index-vector': Vector([2, 0, 1]), 'neg-slice': slice(None, None, -1)}[keyform]
    value = list(good)
    expect_fail = True
    if fault == 'bad-index':
        if not keyform.startswith('index'): return None
        idx = [2, 0, 1]; idx[where] = 7 if where != 1 else -9
        key = Vector(idx) if keyform == 'index-vector' else idx
    elif fault == 'bad-type':
        value[where] = {'int': 'oops', 'float': 'oops', 'str': 5, 'intn': 'oops'}[kind]
    elif fault == 'promote-then-bad':
        if kind not in ('int', 'intn'): return None
        value[0] = 2.5; value[where if where else 1] = 'oops'      # first value would promote, a later one is incompatible
    elif fault == 'too-short':
        value = value[:2]
    elif fault == 'too-long':
        value = value + [value[0]]
    elif fault == 'len-raises':
        value = EvilSeq(good, where + 1, False, None)
    elif fault == 'iter-raises':
        value = EvilSeq(good, 0, True, None)
    elif fault == 'next-raises':
        value = EvilSeq(good, 0, False, where)
    elif fault == 'generator':
        value = (x_ for x_ in good)          # a one-shot iterable without len(): either written completely or refused, never half
        expect_fail = None
    elif fault == 'none':
        expect_fail = False
    else:
        raise ValueError(fault)
    try:
        v[key] = value
        raised = None
    except Exception as e:
        raised = e
    if expect_fail is None:
        if raised is None:
            if not _is_model(v, old, key, good): return H.fail('%s / %s: generator value written wrongly: %r' % (kind, keyform, list(v)))
            return True
        if not _unchanged(v, st) or v.fingerprint() != fp: return H.fail('%s / %s: generator value refused (%r) but the vector changed: %r' % (kind, keyform, raised, list(v)))
        return True
    if expect_fail:
        if raised is None:
            if isinstance(value, EvilSeq) and _is_model(v, old, key, good): return True    # the fault point was never reached: a complete write is fine
            return H.fail('%s / %s / %s@%d: faulty assignment accepted: %r -> %r' % (kind, keyform, fault, where, old, list(v)))
        if not _unchanged(v, st): return H.fail('%s / %s / %s@%d raised %r but the vector changed: %r -> %r typed %r' % (kind, keyform, fault, where, raised, old, list(v), v.schema()))
        if v.fingerprint() != fp: return H.fail('%s / %s / %s: fingerprint changed by a failed assignment' % (kind, keyform, fault))
        # and the vector is still fully usable
        v[0] = old[0]
        if not _unchanged(v, st): return H.fail('vector unusable after the failed assignment')
        return True
    if raised is not None: return H.fail('clean assignment raised %r' % (raised,))
    if not _is_model(v, old, key, good): return H.fail('clean assignment wrong: %r' % (list(v),))
    return True


def _is_model(v, old, key, vals):
    m = list(old)
    if isinstance(key, slice):
        m[key] = vals
    elif isinstance(key, list) and key and type(key[0]) is bool:
        it = iter(vals)
        m = [next(it) if bt else e for e, bt in zip(m, key)]
    else:
        for p, w in zip(list(key), vals):
            m[p] = w
    return H.same_list(list(v), m) or list(v) == m


FAULTS = ['none', 'generator', 'bad-index', 'bad-type', 'promote-then-bad', 'too-short', 'too-long', 'len-raises', 'iter-raises', 'next-raises']
KEYFORMS = ['slice', 'mask', 'index', 'index-vector', 'neg-slice']


def h_atomic(ki: int, fi: int, where: int) -> bool:
    """
    pre: 0 <= ki < len(KEYFORMS) and 0 <= fi < len(FAULTS) and 0 <= where <= 2
    post: _
    """
    H.reset()
    if H.skip(locals()): return True
    r = H.concrete(_atomic_body, H.cfg('kind'), H.pick(KEYFORMS, ki), H.pick(FAULTS, fi), H.pick([0, 1, 2], where))
    if r is False: return False
    if r is None: return True
    return H.ok()


# ------------------------------------------------------------------ tables
def h_table_assign(a: int, b: int, c: int, d: int, e: int, f: int, x: int, y: int, r: int, cj: int) -> bool:
    """
    pre: -3 <= r <= 3 and 0 <= cj <= 3
    post: _
    """
    H.reset()
    if H.skip(locals()): return True
    form = H.cfg('form')
    A = [a, b, c]; B = [d, e, f]
    t = Table({'p': A, 'q': B})
    names = ['p', 'q']
    mA = list(A); mB = list(B)
    ok_row = -3 <= r < 3
    rr = r + 3 if r < 0 else r
    try:
        if form == 'cell-name':
            col = H.pick(['p', 'q', 'P', 'zz'], cj)
            t[r, col] = x
            if col == 'zz' or not ok_row: return H.fail('bad cell address accepted')
            (mA if col in ('p', 'P') else mB)[rr] = x
        elif form == 'cell-index':
            if cj > 1: return True
            t[r, cj] = x
            if not ok_row: return H.fail('bad row accepted')
            (mA if cj == 0 else mB)[rr] = x
        elif form == 'row':
            vals = H.take([x, y, x], cj)
            t[r] = list(vals)
            if cj != 2 or not ok_row: return H.fail('bad row assignment accepted: %r' % (vals,))
            mA[rr] = x; mB[rr] = y
        elif form == 'column':
            if cj > 1: return True
            t[:, names[cj]] = [x, y, x]
            if cj == 0: mA = [x, y, x]
            else: mB = [x, y, x]
        elif form == 'column-scalar':
            if cj > 1: return True
            t[0:2, names[cj]] = x
            tgt = mA if cj == 0 else mB
            tgt[0] = x; tgt[1] = x
        elif form == 'region':
            src = Table({'u': [x, y], 'w': [y, x]})
            t[1:3, 0:2] = src
            mA[1] = x; mA[2] = y; mB[1] = y; mB[2] = x
        else:
            raise ValueError(form)
        raised = None
    except Exception as ex:
        raised = ex
    gA = list(t.cols()[0]); gB = list(t.cols()[1])
    if raised is not None:
        legit = (form in ('cell-name', 'cell-index', 'row') and not ok_row) or (form == 'cell-name' and cj == 3) or (form == 'row' and cj != 2)
        if not legit: return H.fail('table assignment %s raised %r' % (form, raised))
        # per-column atomicity: each column is either untouched or fully written
        if not (H.same_list(gA, A) and H.same_list(gB, B)): return H.fail('failed table assignment changed cells: %r %r' % (gA, gB))
        return H.ok()
    if not (H.same_list(gA, mA) and H.same_list(gB, mB)): return H.fail('%s: table now %r %r, model %r %r' % (form, gA, gB, mA, mB))
    if t.column_names() != names: return H.fail('names changed')
    why = H.rect(t) or H.all_truthful(t)
    if why: return H.fail(why)
    return H.ok()


def _rename_body(names_i, olds_i, bad_at):
    menu = ['a', 'b', 'a', None, 'A b']
    names = [menu[i] for i in names_i]
    t = Table([Vector([1, 2], name=nm) for nm in names])
    olds = [menu[i] for i in olds_i]
    news = ['n%d' % k for k in range(len(olds))]
    if bad_at is not None and bad_at < len(olds):
        olds[bad_at] = 'nope'
    # model: each pair renames the first column currently (in the simulated state) carrying the old name
    sim = list(names); ok = True
    for o, nw in zip(olds, news):
        if o in sim: sim[sim.index(o)] = nw
        else: ok = False; break
    before = list(t.column_names())
    try:
        t.rename_columns(olds, news)
        raised = None
    except Exception as e:
        raised = e
    after = list(t.column_names())
    if not ok:
        if raised is None: return H.fail('rename_columns(%r) with names %r did not fail' % (olds, names))
        if after != before: return H.fail('failed rename_columns(%r) changed names %r -> %r' % (olds, before, after))
        return True
    if raised is not None: return H.fail('rename_columns(%r, %r) on %r raised %r' % (olds, news, names, raised))
    if sorted(map(str, after)) != sorted(map(str, sim)): return H.fail('rename_columns(%r) on %r gave %r, model %r' % (olds, names, after, sim))
    return True


def h_rename(n0: int, n1: int, n2: int, o0: int, o1: int, bad: int) -> bool:
    """
    pre: 0 <= n0 < 5 and 0 <= n1 < 5 and 0 <= n2 < 5 and 0 <= o0 < 5 and 0 <= o1 < 5 and 0 <= bad <= 2
    pre: H.fix(n0=n0, bad=bad)
    post: _
    """
    H.reset()
    if H.skip(locals()): return True
    R = list(range(5))
    args = ([H.pick(R, n0), H.pick(R, n1), H.pick(R, n2)], [H.pick(R, o0), H.pick(R, o1)], H.pick([None, 0, 1], bad))
    if not H.concrete(_rename_body, *args): return False
    return H.ok()


def obligations(tier):
    q = tier == 'quick'
    obs = []
    ns = (3,) if q else (0, 1, 2, 3)
    sm = lambda **kw: None
    for n in ns:
        for val in ('scalar', 'list', 'vector', 'tuple'):
            if q and val == 'tuple':
                continue
            cfgs = [('int', {})]
            for step in (None, 1, -1, 2, -2):
                cfgs.append(('slice', {'step': step}))
            for mk in ('mask-vector', 'mask-list'):
                for mlen in sorted({n, max(n - 1, 0)}):
                    if mlen > 0:          # an empty list / vector is not a boolean mask
                        cfgs.append((mk, {'mlen': mlen}))
            for ik in ('index-vector', 'index-list', 'index-tuple'):
                for klen in ((2,) if q else (1, 2, 3)):
                    cfgs.append((ik, {'klen': klen}))
            if val != 'scalar':
                cfgs = [(key, dict(extra, vlen=vl_)) if key == 'slice' else (key, extra) for key, extra in cfgs for vl_ in ((0, 1, 2, 3, 4) if key == 'slice' else (None,))]
            for key, extra in cfgs:
                if key == 'int' and val != 'scalar':
                    continue
                c = {'n': n, 'key': key, 'val': val}; c.update(extra)
                tag = ','.join('%s=%s' % kv for kv in sorted(extra.items()))
                obs.append(dict(name='assign[n=%d,%s%s,%s]' % (n, key, (',' + tag) if tag else '', val), fn='h_assign_int', config=c, budget=60 if q else 300,
                                bounds='length %d; elements, written values, indices / slice bounds / mask bits / value length symbolic' % n))
    for col in KINDS:
        for form in ('single', 'pair-slice', 'pair-slice-vector', 'pair-index', 'mask-scalar'):
            obs.append(dict(name='promote[%s,%s]' % (col, form), fn='h_promote', config={'col': col, 'form': form}, budget=60,
                            bounds='column kind %s (with and without an existing None) x written kinds {None,bool,int,float,complex,str,date,datetime}%s'
                            % (col, ' x the same 8 kinds for the second value' if form.startswith('pair') else ''),
                            smoke=[[2, 0, False], [3, 5 if form.startswith('pair') else 0, False]]))
    for kind in ('int', 'float', 'str', 'intn'):
        obs.append(dict(name='atomic[%s]' % kind, fn='h_atomic', config={'kind': kind}, budget=60,
                        bounds='5 key forms x 10 fault kinds (bad index, bad type first/later, promote-then-bad, short, long, __len__/__iter__/k-th __next__ raising) x fault position 0..2',
                        smoke=[[0, 2, 1], [2, 1, 0], [0, 8, 1]]))
    for form in ('cell-name', 'cell-index', 'row', 'column', 'column-scalar', 'region'):
        obs.append(dict(name='table[%s]' % form, fn='h_table_assign', config={'form': form}, budget=120 if q else 400,
                        bounds='3x2 int table, cells and written values unbounded symbolic, row index in [-3,3], column selector symbolic',
                        smoke=[[1, 2, 3, 4, 5, 6, 9, 8, 1, 1 if form != 'row' else 2]]))
    for n0 in range(5):
        for bad in range(3):
            obs.append(dict(name='rename-atomic[first=%d,bad=%d]' % (n0, bad), fn='h_rename', config={'n0': n0, 'bad': bad}, budget=60 if q else 300,
                            bounds='3 columns named from {a,b,a,None,"A b"} (first fixed per job), 2 renames, a missing old name at position none/0/1',
                            smoke=[[n0, 1, 2, 0, 1, bad]]))
    return obs

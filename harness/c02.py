"""C02 - tables stay rectangular; row views agree with column views."""
import io
from vp import h as H
from vp.h import Vector, Table

H.standard_env()
ASSUMPTIONS = [
    'tables of 0..3 rows and 0..3 columns; which shape, which operation and which parameters (slice bounds, mask bits, wrong lengths, positions) are solver variables '
    '(symbolic indices); cell values are concrete and pairwise distinct so that every cell is identifiable; once the solver has fixed the case the serif calls run natively',
    'histories: every pair (quick) / triple (thorough) of operations from a 12-operation alphabet incl. failing operations, starting from every shape',
    'degenerate transposes (0 rows or 0 columns) are only required to be rectangular',
    '>> is also taken with a dict key / vector name equal to an existing column name (appends, never replaces)',
]

NAMES = ['c0', 'c1', 'c2']


def cell(i, j, base=0):
    return base + 10 * (j + 1) + i


def mk(R, W, base=0, names=NAMES):
    return Table([Vector([cell(i, j, base) for i in range(R)], name=names[j]) for j in range(W)]) if W else Table({})


def cells_of(t):
    return [list(c) for c in t.cols()]


def model(R, W, base=0):
    return [[cell(i, j, base) for i in range(R)] for j in range(W)]


def _rect(t, what):
    if not isinstance(t, Table):
        return None
    w = H.rect(t)
    return ('%s: %s' % (what, w)) if w else None


RNG = [None, -4, -3, -2, -1, 0, 1, 2, 3, 4]


# ------------------------------------------------------------------ constructions
def _ctor_body(kind, R, W, a, b, step, bits):
    t = mk(R, W)
    m = model(R, W)
    exp = None      # expected column-major cells, when the operation promises them
    if kind == 'dict':
        r = Table({NAMES[j]: list(m[j]) for j in range(W)}); exp = m
    elif kind == 'list':
        r = Table([Vector(list(m[j]), name=NAMES[j]) for j in range(W)]); exp = m
    elif kind == 'vecvec':
        if W == 0: return None
        r = Vector([Vector(list(m[j]), name=NAMES[j]) for j in range(W)]); exp = m
        if not isinstance(r, Table): return H.fail('Vector of %d equal-length vectors is %r' % (W, type(r)))
    elif kind == 'copy':
        if W == 0: return None
        r = t.copy(); exp = m
    elif kind == 'rshift_vec':
        if W == 0: return None
        new = [900 + i for i in range(R)]; r = t >> Vector(new, name='n'); exp = m + [new]
    elif kind == 'rshift_dict':
        new = [900 + i for i in range(R)]; r = t >> {'n': new, 'o': Vector(new)}; exp = m + [new, new]
    elif kind == 'rshift_dict_dupname':
        # a key equal to an existing column's name still APPENDS a column (repeated names are allowed); nothing is replaced
        if W == 0: return None
        new = [900 + i for i in range(R)]; r = t >> {NAMES[0]: new}; exp = m + [new]
    elif kind == 'rshift_vec_dupname':
        if W == 0: return None
        new = [900 + i for i in range(R)]; r = t >> Vector(new, name=NAMES[W - 1]); exp = m + [new]
    elif kind == 'rshift_table':
        if W == 0: return None
        r = t >> mk(R, 2, 500); exp = m + model(R, 2, 500)
    elif kind == 'rshift_iter':
        if W == 0 or R == 0: return None
        new = [900 + i for i in range(R)]; r = t >> list(new); exp = m + [new]
    elif kind == 'lshift_row':
        if W == 0: return None
        row = [700 + j for j in range(W)]; r = t << row; exp = [m[j] + [row[j]] for j in range(W)]
    elif kind == 'lshift_table':
        if W == 0: return None
        u = mk(2, W, 500); r = t << u; exp = [m[j] + model(2, W, 500)[j] for j in range(W)]
    elif kind == 'slice':
        if W == 0: return None
        r = t[a:b:step]; exp = [m[j][a:b:step] for j in range(W)]
    elif kind == 'mask':
        if W == 0 or R == 0: return None
        bl = list(bits[:R]); r = t[bl] if a is None else t[Vector(bl)]; exp = [[e for e, k in zip(m[j], bl) if k] for j in range(W)]
    elif kind == 'colsel':
        if W < 2: return None
        r = t[NAMES[W - 1], NAMES[0]]; exp = [m[W - 1], m[0]]
    elif kind == 'sel2d_names':
        if W < 2: return None
        r = t[a:b, (NAMES[1], NAMES[0])]; exp = [m[1][a:b], m[0][a:b]]
    elif kind == 'sel2d_slice':
        if W < 2 or R == 0: return None
        r = t[a:b, 0:2]; exp = [m[0][a:b], m[1][a:b]]
    elif kind == 'sort':
        if W == 0: return None
        r = t.sort_by(NAMES[0], reverse=True); exp = [list(reversed(m[j])) for j in range(W)]
    elif kind == 'join':
        if W == 0: return None
        r = t.join(mk(2, 2, 0, ['c0', 'z']), 'c0', 'c0', expect='many_to_many')
    elif kind == 'full_join':
        if W == 0: return None
        r = t.full_join(mk(2, 2, 0, ['c0', 'z']), 'c0', 'c0')
    elif kind == 'inner_join':
        if W == 0: return None
        r = t.inner_join(mk(2, 2, 0, ['c0', 'z']), 'c0', 'c0', expect='many_to_many')
    elif kind == 'aggregate':
        if W < 2: return None
        r = t.aggregate(over=NAMES[0], sum_over=NAMES[1], count_over=NAMES[1])
    elif kind == 'window':
        if W < 2: return None
        r = t.window(over=NAMES[0], sum_over=NAMES[1])
    elif kind == 'T':
        r = t.T
        if R >= 1 and W >= 1:
            exp = [[m[j][i] for j in range(W)] for i in range(R)]
    elif kind == 'TT':
        r = t.T.T if isinstance(t.T, Table) else None
        if R >= 1 and W >= 1:
            if not isinstance(r, Table): return H.fail('t.T.T is %r' % (type(r),))
            exp = m
    elif kind == 'arith':
        if W == 0: return None
        r = t + 1; exp = [[e + 1 for e in col] for col in m]
    elif kind == 'csv':
        from serif import read_csv
        if W == 0: return None
        text = ','.join(NAMES[:W]) + '\n' + ''.join(','.join(str(m[j][i]) for j in range(W)) + '\n' for i in range(R))
        r = read_csv(io.StringIO(text)); exp = m if R else None
    else:
        raise ValueError(kind)
    if r is None:
        return None
    if not isinstance(r, Table): return H.fail('%s on %dx%d returned %r, not a Table' % (kind, R, W, type(r)))
    why = _rect(r, '%s on %dx%d (a=%r b=%r step=%r)' % (kind, R, W, a, b, step))
    if why: return H.fail(why)
    if exp is not None and (len(exp) == 0 or True):
        got = cells_of(r)
        if got != exp and not (len(exp) and all(len(c) == 0 for c in exp) and len(r) == 0):
            return H.fail('%s on %dx%d (a=%r b=%r step=%r bits=%r): cells %r, expected %r' % (kind, R, W, a, b, step, bits, got, exp))
    # the operand is untouched and still rectangular
    why = _rect(t, 'operand after %s' % kind)
    if why: return H.fail(why)
    if cells_of(t) != m: return H.fail('%s changed its operand' % kind)
    tr = H.all_truthful(r)
    if tr: return H.fail(tr)
    return True


CTORS = ['dict', 'list', 'vecvec', 'copy', 'rshift_vec', 'rshift_dict', 'rshift_table', 'rshift_iter', 'lshift_row', 'lshift_table', 'slice', 'mask',
         'colsel', 'sel2d_names', 'sel2d_slice', 'sort', 'join', 'full_join', 'inner_join', 'aggregate', 'window', 'T', 'TT', 'arith', 'csv', 'rshift_dict_dupname', 'rshift_vec_dupname']


def h_ctor(R: int, W: int, ai: int, bi: int, m0: bool, m1: bool, m2: bool, vecmask: bool) -> bool:
    """
    pre: 0 <= R <= 3 and 0 <= W <= 3 and 0 <= ai < len(RNG) and 0 <= bi < len(RNG)
    pre: H.cfg('kind') in ('slice', 'sel2d_names', 'sel2d_slice') or (ai == 0 and bi == 0)
    pre: H.cfg('kind') == 'mask' or (not m0 and not m1 and not m2 and not vecmask)
    post: _
    """
    H.reset()
    if H.skip(locals()): return True
    kind = H.cfg('kind')
    Rc = H.among([0, 1, 2, 3], R); Wc = H.among([0, 1, 2, 3], W)
    a = H.pick(RNG, ai); b = H.pick(RNG, bi)
    bits = [True if m0 else False, True if m1 else False, True if m2 else False]
    if kind == 'mask':
        a = 1 if vecmask else None
    r = H.concrete(_ctor_body, kind, Rc, Wc, a, b, H.cfg('step'), bits)
    if r is False: return False
    if r is None: return True
    return H.ok()


# ------------------------------------------------------------------ ragged input is rejected
def _reject_body(kind, R, W, R2, pos):
    if R == 0 and kind in ('row-assign', 'region-assign', '>>list'):
        return True      # no row 0 to assign / nothing to infer a column from on a zero-row table
    t = mk(R, W)
    m = model(R, W)
    made = None
    raised = None
    try:
        if kind == 'Table(list)':
            cols = [Vector([cell(i, j) for i in range(R2 if j == pos else R)], name=NAMES[j]) for j in range(W)]
            made = Table(cols)
        elif kind == 'Table(dict)':
            made = Table({NAMES[j]: [cell(i, j) for i in range(R2 if j == pos else R)] for j in range(W)})
        elif kind == 'Vector(vectors)':
            made = Vector([Vector([cell(i, j) for i in range(R2 if j == pos else R)]) for j in range(W)])
        elif kind == '>>dict':
            made = t >> {'n': list(range(R2))}
        elif kind == '>>dict-vector':
            made = t >> {'ok': list(range(R)), 'n': Vector(list(range(R2)))}
        elif kind == '>>vector':
            made = t >> Vector(list(range(R2)), name='n')
        elif kind == '>>list':
            made = t >> list(range(R2))
        elif kind == '>>table':
            made = t >> mk(R2, 1, 500)
        elif kind == 'vector>>table':
            made = Vector(list(range(R2)), name='n') >> t
        elif kind == 'setattr':
            t.c0 = Vector(list(range(R2)))
        elif kind == 'setattr-indexed':
            t.c0__0 = list(range(R2))
        elif kind == '<<row':
            made = t << list(range(R2))            # R2 plays the role of the row arity here
        elif kind == '<<row-nested':
            made = t << ([[1, 2]] + [0] * (W - 1))   # one cell is itself a sequence: that column would grow by two
        elif kind == '<<table':
            made = t << mk(2, R2, 500)            # R2 plays the role of the other table's width
        elif kind == 'row-assign':
            t[0] = list(range(R2))
        elif kind == 'column-assign':
            t[:, NAMES[pos]] = list(range(100, 100 + R2))
        elif kind == 'region-assign':
            t[0:R, 0:W] = mk(R2, W, 500)
        else:
            raise ValueError(kind)
    except Exception as e:
        raised = e
    arity = kind in ('<<row', 'row-assign', '<<table')
    bad = (R2 != W) if arity else (R2 != R)
    if kind in ('Table(list)', 'Table(dict)', 'Vector(vectors)') and W == 1:
        bad = False      # a single column cannot be ragged
    if kind == '<<row-nested':
        bad = True
    if isinstance(made, Table):
        why = _rect(made, '%s with lengths %d vs %d' % (kind, R, R2))
        if why: return H.fail('ragged input accepted: ' + why)
    if bad and made is not None and isinstance(made, Table) and kind not in ('<<row-nested',):
        # a rectangular table came back although the input was ragged: only acceptable if nothing was invented or dropped silently
        return H.fail('%s with mismatching length %d (table is %dx%d) returned a %r table instead of refusing' % (kind, R2, R, W, made.shape))
    why = _rect(t, 'receiver after %s' % kind)
    if why: return H.fail(why)
    if bad and cells_of(t) != m: return H.fail('%s with mismatching length changed the receiver: %r' % (kind, cells_of(t)))
    if not bad and raised is not None and kind not in ('Vector(vectors)',):
        return H.fail('%s with matching length %d raised %r' % (kind, R2, raised))
    return True


REJECTS = ['Table(list)', 'Table(dict)', 'Vector(vectors)', '>>dict', '>>dict-vector', '>>vector', '>>list', '>>table', 'vector>>table', 'setattr',
           'setattr-indexed', '<<row', '<<row-nested', '<<table', 'row-assign', 'column-assign', 'region-assign']


def h_reject(R: int, W: int, R2: int, pos: int) -> bool:
    """
    pre: 0 <= R <= 3 and 1 <= W <= 3 and 0 <= R2 <= 4 and 0 <= pos < W
    post: _
    """
    H.reset()
    if H.skip(locals()): return True
    r = H.concrete(_reject_body, H.cfg('kind'), H.among([0, 1, 2, 3], R), H.among([1, 2, 3], W), H.among([0, 1, 2, 3, 4], R2), H.among([0, 1, 2], pos))
    if r is False: return False
    return H.ok()


# ------------------------------------------------------------------ in-place updates and histories
OPS = ['view-slice-write', 'view-mask-write', 'rshift', 'lshift', 'slice', 'mask', 'sort', 'setcell', 'setrow', 'setcol', 'setattr', 'rename', 'T', 'fail-setattr', 'fail-row', 'fail-col', 'colsel', 'region']


def _apply(op, t, p):
    """One step of a history.  Returns the table the program holds afterwards."""
    R = len(t); W = len(t.cols())
    names = t.column_names()
    if W == 0:
        return t         # zero-column tables are degenerate: nothing to select or write
    if op == 'view-slice-write':
        # slice writes through a live column view, incl. empty, reversed and out-of-range slices: the column must keep its length
        col = t.cols()[p % W]
        for sl in (slice(3, 1), slice(5, None), slice(None, None, -1), slice(1, 1), slice(-1, -5, -1), slice(R, R + 2)):
            try:
                col[sl] = 77
            except Exception:
                pass
        return t
    if op == 'view-mask-write':
        col = t.cols()[p % W]
        for key, val in (([True] * R, list(range(R))), ([False] * R, []), (list(range(R)), list(range(R)))):
            try:
                if R: col[key] = val
            except Exception:
                pass
        return t
    if op == 'rshift':
        return t >> Vector([800 + i for i in range(R)], name='x%d' % p)
    if op == 'lshift':
        return t << [600 + j for j in range(W)] if W else t
    if op == 'slice':
        return t[p % 2:]
    if op == 'mask':
        return t[[(i + p) % 2 == 0 for i in range(R)]] if R else t
    if op == 'sort':
        return t.sort_by(t.cols()[0], reverse=bool(p % 2)) if W else t
    if op == 'setcell':
        if R and W: t[p % R, p % W] = 4242
        return t
    if op == 'setrow':
        if R and W: t[p % R] = [77 + j for j in range(W)]
        return t
    if op == 'setcol':
        if W: t[:, p % W] = [55 + i for i in range(R)]
        return t
    if op == 'setattr':
        if W and names[0] is not None: setattr(t, str(names[0]), Vector([33 + i for i in range(R)]))
        return t
    if op == 'rename':
        if W: t.rename_column(names[p % W], 'r%d' % p)
        return t
    if op == 'T':
        r = t.T
        return r if isinstance(r, Table) else t
    if op == 'fail-setattr':
        try:
            if W and names[0] is not None: setattr(t, str(names[0]), Vector(list(range(R + 1 + p))))
        except Exception:
            pass
        return t
    if op == 'fail-row':
        try:
            if R: t[0] = list(range(W + 1))
        except Exception:
            pass
        return t
    if op == 'fail-col':
        try:
            if W: t[:, 0] = list(range(R + 2))
        except Exception:
            pass
        return t
    if op == 'colsel':
        return t[tuple(n for n in names[:2])] if W >= 2 and all(isinstance(n, str) for n in names[:2]) else t
    if op == 'region':
        if R >= 2 and W >= 2: t[0:2, 0:2] = mk(2, 2, 300)
        return t
    raise ValueError(op)


def _hist_body(R, W, ops, ps):
    t = mk(R, W)
    held = [t]
    for op, p in zip(ops, ps):
        try:
            t2 = _apply(op, t, p)
        except Exception as e:
            return H.fail('history %r from %dx%d: step %s raised %r' % (ops, R, W, op, e))
        if not isinstance(t2, Table): return H.fail('history %r: step %s returned %r' % (ops, op, type(t2)))
        held.append(t2)
        t = t2
        for k, x in enumerate(held):
            why = _rect(x, 'history %r from %dx%d, after step %s, table #%d' % (ops, R, W, op, k))
            if why: return H.fail(why)
    tr = H.all_truthful(t)
    if tr: return H.fail('history %r: %s' % (ops, tr))
    return True


def h_hist(R: int, W: int, o0: int, o1: int, o2: int, p0: int, p1: int, p2: int) -> bool:
    """
    pre: 0 <= R <= 3 and 1 <= W <= 3
    pre: 0 <= o0 < len(OPS) and 0 <= o1 < len(OPS) and 0 <= o2 < len(OPS) and 0 <= p0 <= 1 and 0 <= p1 <= 1 and 0 <= p2 <= 1
    pre: H.fix(o0=o0)
    pre: H.cfg('H', 2) >= 3 or (o2 == 0 and p2 == 0)
    post: _
    """
    H.reset()
    if H.skip(locals()): return True
    depth = H.cfg('H', 2)
    RO = list(range(len(OPS)))
    ops = [OPS[H.among(RO, o)] for o in (o0, o1, o2)][:depth]
    ps = [H.among([0, 1], p) for p in (p0, p1, p2)][:depth]
    if not H.concrete(_hist_body, H.among([0, 1, 2, 3], R), H.among([1, 2, 3], W), ops, ps): return False
    return H.ok()


# ------------------------------------------------------------------ the invariant with symbolic cells (symbolically executed, not native)
SYM_OPS = ['build', 'slice', 'mask', 'lshift', 'rshift', 'sort', 'T', 'setrow', 'setcol', 'left-join', 'arith', 'setattr']


def h_rect_sym(a: int, b: int, c: int, d: int, e: int, f: int, n: int, x: int, y: int, lo: int, hi: int, m0: bool, m1: bool, m2: bool) -> bool:
    """
    pre: 0 <= n <= 3 and -4 <= lo <= 4 and -4 <= hi <= 4
    pre: H.fix(n=n)
    pre: H.cfg('op') == 'slice' or (lo == 0 and hi == 0)
    pre: H.cfg('op') == 'mask' or (not m0 and not m1 and not m2)
    post: _
    """
    H.reset()
    if H.skip(locals()): return True
    op = H.cfg('op')
    A = H.take([a, b, c], n); B = H.take([d, e, f], n)
    t = Table({'p': A, 'q': B})
    why = H.rect(t)
    if why: return H.fail('constructed table: ' + why)
    ea, eb = list(A), list(B)        # expected cells
    if op == 'build': r = t
    elif op == 'slice': r = t[lo:hi]; ea, eb = A[lo:hi], B[lo:hi]
    elif op == 'mask':
        if n == 0: return True
        bits = H.take([True if m0 else False, True if m1 else False, True if m2 else False], n)
        r = t[bits]; ea = [v for v, k in zip(A, bits) if k]; eb = [v for v, k in zip(B, bits) if k]
    elif op == 'lshift': r = t << [x, y]; ea, eb = A + [x], B + [y]
    elif op == 'rshift':
        r = t >> Vector(list(B), name='z')
        if [list(col) for col in r.cols()] != [A, B, B]: return H.fail('>> changed existing cells')
        ea = eb = None
    elif op == 'sort':
        r = t.sort_by('p'); ea = eb = None
        if sorted(zip(ea or list(r.cols()[0]), list(r.cols()[1]))) != sorted(zip(A, B)): return H.fail('sort lost or split cells')
    elif op == 'T':
        r = t.T; ea = eb = None
        if n and [list(col) for col in r.cols()] != [[A[i], B[i]] for i in range(n)]: return H.fail('transpose cells wrong')
        if n and [list(col) for col in r.T.cols()] != [A, B]: return H.fail('t.T.T differs from t')
    elif op == 'setrow':
        if n == 0: return True
        t[n - 1] = [x, y]; r = t; ea = A[:-1] + [x]; eb = B[:-1] + [y]
    elif op == 'setcol':
        t[:, 'q'] = list(A); r = t; ea, eb = A, list(A)
    elif op == 'left-join':
        r = t.join(Table({'k': list(range(n)), 'z': list(B)}), Vector(list(range(n))), 'k') if n else t
        ea = eb = None
    elif op == 'arith': r = t + x; ea = [v + x for v in A]; eb = [v + x for v in B]
    elif op == 'setattr':
        t.p = Vector(list(B)); r = t; ea, eb = list(B), list(B)
    else: raise ValueError(op)
    if not isinstance(r, Table): return H.fail('%s returned %r' % (op, type(r)))
    why = H.rect(r)
    if why: return H.fail('%s on %d rows: %s' % (op, n, why))
    if ea is not None:
        got = [list(col) for col in r.cols()][:2]
        if got != [ea, eb] and not (len(ea) == 0 and len(r) == 0): return H.fail('%s: cells %r, expected %r' % (op, got, [ea, eb]))
    return H.ok()


def obligations(tier):
    q = tier == 'quick'
    obs = []
    for kind in CTORS:
        steps = [None, -1, 2] if kind == 'slice' else [None]
        for step in steps:
            obs.append(dict(name='ctor[%s%s]' % (kind, '' if step is None else ',step=%d' % step), fn='h_ctor', config={'kind': kind, 'step': step}, budget=90 if q else 300,
                            bounds='every shape 0..3 x 0..3; slice bounds in [-4,4] or None / every mask where they apply', smoke=[[2, 2, 0, 0, False, False, False, False], [3, 3, 0, 0, False, False, False, False]]))
    for kind in REJECTS:
        obs.append(dict(name='reject[%s]' % kind, fn='h_reject', config={'kind': kind}, budget=90 if q else 300,
                        bounds='receiver 0..3 x 1..3 (incl. zero-row tables), offending length / arity 0..4 at every column position', smoke=[[2, 2, 3, 0], [2, 2, 2, 1], [3, 2, 1, 1]]))
    for op in SYM_OPS:
        for n in range(4):
            if n == 0 and op in ('slice', 'mask', 'setrow'):
                continue        # nothing to mask / no row to assign on 0 rows; slices of 0-row tables are covered natively by ctor[slice]
            obs.append(dict(name='rect-symbolic[%s,n=%d]' % (op, n), fn='h_rect_sym', config={'op': op, 'n': n}, budget=90 if q else 300,
                            bounds='%d rows x 2 columns of unbounded symbolic ints (slice bounds in [-4,4], mask bits, appended row / written row symbolic); symbolically executed (not native)' % n,
                            smoke=[[1, 2, 3, 4, 5, 6, n, 7, 8, 0, 0, False, False, False]]))
    for o0 in range(len(OPS)):
        obs.append(dict(name='hist[H=2,first=%s]' % OPS[o0], fn='h_hist', config={'o0': o0, 'H': 2}, budget=120 if q else 300,
                        bounds='every start shape 0..3 x 1..3, first operation fixed per job, every second operation of the 18-operation alphabet, 2 parameter values each; '
                               'every table held along the way is checked after every step', smoke=[[2, 2, o0, 1, 0, 0, 1, 0]]))
        if not q:
            obs.append(dict(name='hist[H=3,first=%s]' % OPS[o0], fn='h_hist', config={'o0': o0, 'H': 3}, budget=900,
                            bounds='as H=2 with every third operation', smoke=[[2, 2, o0, 1, 2, 0, 1, 0]]))
    return obs

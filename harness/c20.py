"""C20 - repr never fails and never misstates shape, dtype or data."""
import re
from typing import Optional
from datetime import date, datetime
from decimal import Decimal
from vp import h as H
from vp.h import Vector, Table
import serif

H.standard_env()
ASSUMPTIONS = [
    'element values come from per-kind menus (floats incl. NaN, +-inf, -0.0, 1e300, 1e-300; ints of several widths incl. 10^12 and negatives; str incl. empty, "...", quotes, '
    'newline, unicode; bool; date; datetime; complex; Decimal; nested list; None) selected by symbolic index; lengths, preview limits, widths, name patterns and None placement are '
    'solver variables; str() / format() realise symbolic values at the C boundary, hence menus; a short symbolic-float pass runs as bug hunting',
    'preview: for n > limit exactly the first and last limit//2 rows around one ellipsis line, for n < limit every row; n == limit is left unconstrained (the statement says longer / shorter)',
    'dtype tokens may appear in the footer or, for heterogeneous tables, in the bracketed type row of the header (footer then says <mixed>)',
    'body cells are parsed back and compared for int and str columns whose texts contain no double space',
]

KINDS = {
    'float': [1.0, float('nan'), float('inf'), float('-inf'), -0.0, 2.5, 1e300, 1e-300, 123456789.125, -1.5],
    'int': [0, -7, 42, 12345, -10 ** 12, 2 ** 70],
    'str': ['a', '', '...', 'two  words', "it's", 'é', 'line\nbreak', 'None', ' pad '],
    'bool': [True, False],
    'date': [date(2020, 1, 2), date(1, 1, 1), date(9999, 12, 31)],
    'datetime': [datetime(2020, 1, 2, 3, 4, 5), datetime(1999, 12, 31)],
    'complex': [1 + 2j, complex(float('nan'), 1), 0j],
    'object': [1, 'x', 2.5, (1, 2), [3], Decimal('1.5'), float('nan'), b'b'],
}
NAMEMENU = [None, 'a', 'A b', 'sum', '', '1', 'é', 'x' * 30]


def footer_of(text):
    return text.split('\n')[-1]


def dtype_token(col):
    sch = col.schema()
    if sch is None:
        return 'object'
    return sch.kind.__name__ + ('?' if sch.nullable else '')


def check_vector_repr(v, vals, limit):
    before = H.snap(v)
    try:
        text = repr(v)
    except Exception as e:
        return 'repr(Vector(%r)) raised %r' % (vals, e)
    if not isinstance(text, str): return 'repr returned %r' % (type(text),)
    if not H.snap_eq(before, H.snap(v)): return 'repr changed the vector'
    n = len(vals)
    foot = footer_of(text)
    if n == 0:
        if 'empty' not in foot and not foot.startswith('# 0 '): return 'footer of an empty vector: %r' % (foot,)
        return None
    m = re.match(r'^# (\d+) element vector <(.+)>$', foot)
    if not m: return 'footer %r does not state count and dtype' % (foot,)
    if int(m.group(1)) != n: return 'footer says %s elements, the vector has %d' % (m.group(1), n)
    if m.group(2) != dtype_token(v): return 'footer says <%s>, schema is %s' % (m.group(2), dtype_token(v))
    lines = text.split('\n')
    body = lines[:-2]
    if v.name:
        body = body[1:]
    if any('\n' in str(x) for x in vals if isinstance(x, str)):
        return None
    half = limit // 2
    if n > limit:
        if len(body) != 2 * half + 1: return 'vector of %d with limit %d shows %d body lines, expected %d head + ellipsis + %d tail' % (n, limit, len(body), half, half)
        if body[half].strip() != '...': return 'no ellipsis line at position %d: %r' % (half, body)
        shown = list(vals[:half]) + list(vals[n - half:])
        got = body[:half] + body[half + 1:]
    elif n < limit:
        if len(body) != n: return 'vector of %d with limit %d shows %d body lines' % (n, limit, len(body))
        shown = list(vals); got = body
    else:
        # n == limit: either form is acceptable, but an ellipsis must stand for something that is actually left out
        ell = [b for b in body if b.strip() == '...']
        if ell and not any(isinstance(x, str) and x.strip() == '...' for x in vals):
            if len(body) - len(ell) >= n: return 'vector of %d (== limit) shows all %d elements AND an ellipsis line' % (n, n)
        return None
    kind = v.schema().kind if v.schema() is not None else None
    if kind is int or kind is str:
        for g, w in zip(got, shown):
            wt = 'None' if w is None else str(w)
            if g.strip() != wt.strip(): return 'body line %r does not show element %r (values %r)' % (g, w, vals)
    return None


def check_table_repr(t, cols_vals, names, limit, colmax=5):
    before = H.snap(t)
    try:
        text = repr(t)
    except Exception as e:
        return 'repr(table) raised %r (names %r, first column %r)' % (e, names, cols_vals[0] if cols_vals else None)
    if not isinstance(text, str): return 'repr returned %r' % (type(text),)
    if not H.snap_eq(before, H.snap(t)): return 'repr changed the table'
    W = len(cols_vals)
    if W == 0:
        if '0' not in text: return 'repr of an empty table: %r' % (text,)
        return None
    R = len(cols_vals[0])
    foot = footer_of(text)
    m = re.match(r'^# (\d+)×(\d+) table <(.+)>$', foot)
    if not m: return 'table footer %r does not state rows x columns and dtypes' % (foot,)
    if (int(m.group(1)), int(m.group(2))) != (R, W): return 'footer says %s x %s, the table is %d x %d' % (m.group(1), m.group(2), R, W)
    tokens = [dtype_token(c) for c in t.cols()]
    lines = text.split('\n')
    truncated = W > 2 * colmax
    ftxt = m.group(3)
    if ftxt == 'mixed':
        trow = [ln for ln in lines if re.match(r'^\s*(\[[^\]]+\]|\.\.\.)(\s+(\[[^\]]+\]|\.\.\.))*\s*$', ln)]
        if not trow: return 'footer says <mixed> but no type row in the header'
        shown = re.findall(r'\[([^\]]+)\]', trow[0])
        want = tokens if not truncated else tokens[:colmax] + tokens[-colmax:]
        if shown != want: return 'header type row %r, true dtypes %r' % (shown, want)
    elif len(set(tokens)) == 1:
        if ftxt != tokens[0]: return 'footer dtype <%s>, true dtype %s' % (ftxt, tokens[0])
    else:
        want = ', '.join(tokens) if not truncated else ', '.join(tokens[:colmax]) + ', ..., ' + ', '.join(tokens[-colmax:])
        if ftxt != want: return 'footer dtypes <%s>, true dtypes <%s>' % (ftxt, want)
    half = limit // 2
    if R > limit:
        nshown = 2 * half + 1
    elif R < limit:
        nshown = R
    else:
        nshown = None
    simple = all(all(x is None or type(x) is int for x in cv) for cv in cols_vals)
    if nshown is None and simple and R == limit:
        ell_rows = [ln for ln in lines[:-2] if ln.split() and all(tk == '...' for tk in ln.split())]
        if ell_rows:
            # an ellipsis row must stand for rows that are actually left out
            data_rows = [ln for ln in lines[:-2] if ln.split() and ln not in ell_rows and all(re.match(r'^(-?\d+|None|\.\.\.)$', tk) for tk in ln.split())]
            if len(data_rows) >= R: return 'table of %d rows (== limit) shows all rows AND an ellipsis row' % R
    if nshown is not None and simple:
        body = lines[-2 - nshown:-2] if nshown else []
        head = lines[:len(lines) - 2 - nshown]
        if len(lines) - 2 - nshown < 1: return 'table shows fewer than %d body rows' % nshown
        if len(head) > 3: return 'table of %d rows with limit %d shows more than %d body rows: %r' % (R, limit, nshown, lines)
        idxs = (list(range(half)) + [None] + list(range(R - half, R))) if R > limit else list(range(R))
        shown_cols = list(range(W)) if not truncated else list(range(colmax)) + [None] + list(range(W - colmax, W))
        for ln, ri in zip(body, idxs):
            toks = ln.split()
            if ri is None:
                if not all(tk == '...' for tk in toks): return 'expected an ellipsis row, got %r' % (ln,)
                continue
            if len(toks) != len(shown_cols): return 'row %r has %d cells, expected %d' % (ln, len(toks), len(shown_cols))
            for tk, cj in zip(toks, shown_cols):
                if cj is None:
                    if tk != '...': return 'expected an ellipsis column in %r' % (ln,)
                    continue
                w = cols_vals[cj][ri]
                if tk != ('None' if w is None else str(w)): return 'row %d column %d shows %r, the cell is %r' % (ri, cj, tk, w)
        # stored names in the first header row (plain identifiers only)
        if all(isinstance(nm, str) and re.match(r'^[a-z][a-z0-9]*$', nm) and nm not in ('sum',) for nm in names) and len(set(names)) == len(names) and head:
            toks = head[0].split()
            want = [names[cj] if cj is not None else '...' for cj in shown_cols]
            if toks != want: return 'header shows %r, stored names %r' % (toks, want)
        if not truncated and any('...' == tk for ln in head for tk in ln.split()): return 'ellipsis column although the table is not wide (%d columns)' % W
    return None


def _vec_body(kind, idx, n, nones, namei, limit_global):
    serif.set_repr_rows(limit_global)
    try:
        menu = KINDS[kind]
        vals = [None if nones[i % len(nones)] and i % 2 == 1 else menu[idx[i % len(idx)] % len(menu)] for i in range(n)]
        if kind == 'object':
            v = Vector(vals, dtype=object, name=NAMEMENU[namei]) if n else Vector([], name=NAMEMENU[namei])
        else:
            v = Vector(vals, name=NAMEMENU[namei])
        why = check_vector_repr(v, vals, limit_global)
        if why: return H.fail(why)
        # the global setting is read at every repr: the SAME vector follows a later set_repr_rows
        limit2 = limit_global + 4 if limit_global <= 6 else 4
        serif.set_repr_rows(limit2)
        why = check_vector_repr(v, vals, limit2)
        if why: return H.fail('after set_repr_rows(%d) following an earlier repr under %d: %s' % (limit2, limit_global, why))
        serif.set_repr_rows(limit_global)
        # the same data as a table column and as a row-displayed vector
        t = Table([Vector(vals, name=NAMEMENU[namei], dtype=(object if kind == 'object' and n else None))]) if n else None
        if t is not None:
            try:
                txt = repr(t); txt2 = repr(v.T); txt3 = str(t[0]) if len(t) else ''
            except Exception as e:
                return H.fail('repr of a one-column table / transposed vector over %r raised %r' % (vals, e))
    finally:
        serif.set_repr_rows(None)
    return True


def h_vector(i0: int, i1: int, i2: int, n: int, m0: bool, namei: int) -> bool:
    """
    pre: 0 <= i0 < len(KINDS[H.cfg('kind')]) and 0 <= i1 < len(KINDS[H.cfg('kind')]) and i2 == 0 and 0 <= n <= H.cfg('limit') + 3 and 0 <= namei < len(NAMEMENU)
    pre: H.fix(namei=namei)
    post: _
    """
    H.reset()
    if H.skip(locals()): return True
    R10 = list(range(10))
    lim = H.cfg('limit')
    if not H.concrete(_vec_body, H.cfg('kind'), [H.among(R10, i0), H.among(R10, i1)], H.among(list(range(lim + 4)), n), [True if m0 else False],
                      H.cfg('namei'), lim): return False
    return H.ok()


def _table_body(R, W, limit, per_table, mix, namepat, nonecol):
    if not per_table:
        serif.set_repr_rows(limit)
    try:
        cols_vals = []
        names = []
        for j in range(W):
            if mix == 1 and j % 3 == 1:
                cv = ['s%d_%d' % (j, i) for i in range(R)]
            elif mix == 2 and j % 2 == 0:
                cv = [float(i) + 0.5 for i in range(R)]
            elif mix == 3 and j == W // 2:
                cv = ['m%d' % i for i in range(R)]          # only the middle column differs (hidden when the table is wide)
            else:
                cv = [(j + 1) * 100 + i for i in range(R)]
            if nonecol is not None and j == nonecol % max(W, 1) and R:
                cv = list(cv); cv[R // 2] = None
            cols_vals.append(cv)
            names.append({0: 'c%d' % j, 1: None, 2: ['a', 'A b', 'sum', 'a', '', '1x'][j % 6]}[namepat])
        t = Table([Vector(cv, name=nm) for cv, nm in zip(cols_vals, names)]) if W else Table({})
        if per_table:
            t._repr_rows = limit
        why = check_table_repr(t, cols_vals, names, limit)
        if why: return H.fail(why)
        if not per_table:
            # the global setting is read at every repr: changing it afterwards changes the next repr of the SAME object
            limit2 = limit + 4 if limit <= 6 else 4
            serif.set_repr_rows(limit2)
            why = check_table_repr(t, cols_vals, names, limit2)
            if why: return H.fail('after set_repr_rows(%d) following an earlier repr under %d: %s' % (limit2, limit, why))
            if getattr(t, '_repr_rows', None) is not None: return H.fail('repr left a per-table row limit behind (%r)' % (t._repr_rows,))
    finally:
        serif.set_repr_rows(None)
    return True


def h_table(R: int, W: int, per_table: bool, mix: int, namepat: int, nonecol: int) -> bool:
    """
    pre: 0 <= R <= H.cfg('limit') + 3 and H.cfg('wlo') <= W <= H.cfg('whi') and 0 <= mix <= 3 and 0 <= namepat <= 2 and -1 <= nonecol <= 2
    post: _
    """
    H.reset()
    if H.skip(locals()): return True
    lim = H.cfg('limit')
    nc = H.among([-1, 0, 1, 2], nonecol)
    if not H.concrete(_table_body, H.among(list(range(lim + 4)), R), H.among(list(range(H.cfg('wlo'), H.cfg('whi') + 1)), W), lim, True if per_table else False,
                      H.among([0, 1, 2, 3], mix), H.among([0, 1, 2], namepat), None if nc < 0 else nc): return False
    return H.ok()


def h_float_symbolic(a: Optional[float], b: Optional[float]) -> bool:
    """
    post: _
    """
    H.reset()
    v = Vector([a, b, 1.5])
    text = repr(v)
    t = Table({'f': [a, b], 'g': [1, 2]})
    text2 = repr(t)
    return isinstance(text, str) and isinstance(text2, str) and text.split('\n')[-1].startswith('# 3 element vector <float')


def obligations(tier):
    q = tier == 'quick'
    obs = []
    limits = [12, 4] if q else [12, 2, 3, 4, 5, 8, 14]
    for kind in KINDS:
        for limit in limits:
            for namei in ((0, 2) if q else range(len(NAMEMENU))):
                if q and limit != 12 and kind not in ('int', 'str'):
                    continue
                obs.append(dict(name='vector[%s,limit=%d,name=%d]' % (kind, limit, namei), fn='h_vector', config={'kind': kind, 'limit': limit, 'namei': namei}, budget=90 if q else 300,
                                bounds='kind %s: every length 0..%d, two alternating element slots over the %d-entry menu, None at odd positions on/off, name %r, preview limit %d via set_repr_rows'
                                % (kind, limit + 3, len(KINDS[kind]), NAMEMENU[namei], limit), smoke=[[0, 1, 2, 3, False, namei], [1, 2, 3, limit + 2, True, namei]]))
    for limit in ([12, 4, 5] if q else [12, 2, 3, 4, 5, 6, 7, 8, 14]):
        for (wlo, whi) in ((0, 2), (3, 3), (4, 4)):
            obs.append(dict(name='table[limit=%d,W=%d..%d]' % (limit, wlo, whi), fn='h_table', config={'limit': limit, 'wlo': wlo, 'whi': whi}, budget=120 if q else 400,
                            bounds='rows 0..%d, columns %d..%d, limit %d set globally (then changed and re-checked on the same object) or per table, homogeneous / mixed dtypes, 3 name patterns, a None in column 0/1/2 or none'
                            % (limit + 3, wlo, whi, limit), smoke=[[3, whi, False, 0, 0, -1], [limit + 2, whi, True, 1, 2, 1]]))
    for (lo, hi) in ((9, 12),):
        obs.append(dict(name='wide[W=%d..%d]' % (lo, hi), fn='h_table', config={'limit': 4, 'wlo': lo, 'whi': hi}, budget=150 if q else 400,
                        bounds='columns %d..%d (around the column limit of 10): ellipsis column only when truncated, footer dtypes head + ... + tail' % (lo, hi),
                        smoke=[[3, 10, False, 0, 0, -1], [6, 11, True, 1, 0, 1]]))
    obs.append(dict(name='float-symbolic (bug hunting)', fn='h_float_symbolic', config={}, budget=40 if q else 300, twin=False,
                    bounds='two fully symbolic Optional[float] elements (z3 reaches NaN / inf / -0.0 through the IEEE model); formatting realises the values, so this cannot exhaust'))
    return obs

"""C05 - elementwise operations equal the Python scalar operation, shape preserved."""
import operator
from typing import Optional
from datetime import date, datetime, timedelta
from vp import h as H
from vp.h import Vector, Table

H.standard_env()
ASSUMPTIONS = [
    'int elements are unbounded symbolic Optional[int] for + - * (and // % with the divisor in [-3,3], ** with exponent from {0,1,2,3}); '
    'bool/float/complex/str operands and true division enter through a menu of concrete representatives selected by symbolic index '
    '(symbolic float arithmetic costs seconds per path here)',
    'if Python itself raises for some position the obligation is vacuous for that input (interpretation table, DESIGN.md 5.0)',
    'broadcast methods: string/date/int/float elements and arguments from menus; one obligation per wrapper/proxied name, enumerated from the classes at run time',
    'str/date arithmetic (vector and table as left operand) and the same-object form v op v are menu-bounded (2 elements from the listed menus)',
]

OPS = {'add': operator.add, 'sub': operator.sub, 'mul': operator.mul, 'truediv': operator.truediv,
       'floordiv': operator.floordiv, 'mod': operator.mod, 'pow': operator.pow}
FORMS = ['vv', 'vs', 'vl', 'sv', 'lv']


class Vacuous(Exception):
    pass


def _expected(op, form, vl, wl, s):
    """Python's own answer, position by position, in the written operand order."""
    f = OPS[op]
    out = []
    for i, x in enumerate(vl):
        y = s if form in ('vs', 'sv') else (x if form == 'self' else wl[i])
        if x is None or y is None:
            if form in ('vs', 'sv') and s is None:
                raise Vacuous()      # None scalar: Python raises TypeError
            out.append(None)
            continue
        try:
            out.append(f(y, x) if form in ('sv', 'lv') else f(x, y))
        except Exception:
            raise Vacuous()
    return out


def _call(op, form, v, wl, s):
    f = OPS[op]
    if form == 'vv': return f(v, Vector(wl))
    if form == 'vs': return f(v, s)
    if form == 'vl': return f(v, list(wl))
    if form == 'sv': return f(s, v)
    if form == 'lv': return f(list(wl), v)
    if form == 'self': return f(v, v)      # the same object on both sides
    raise ValueError(form)


def _check(op, form, vl, wl, s):
    try:
        want = _expected(op, form, vl, wl, s)
    except Vacuous:
        return None
    if op == 'mod' and ((form == 'sv' and isinstance(s, (str, bytes))) or (form == 'lv' and False)):
        return None      # 'x' % v is Python's own string formatting (str.__mod__ wins); not a vector operation
    v = Vector(vl, name='left')
    before = list(v)
    try:
        r = _call(op, form, v, wl, s)
    except Exception as e:
        return H.fail('%s[%s] on %r, %r, scalar %r raised %r although Python defines every position' % (op, form, vl, wl, s, e))
    if not isinstance(r, Vector): return H.fail('%s[%s]: result is %r, not a Vector' % (op, form, type(r)))
    if len(r) != len(vl): return H.fail('%s[%s]: length %d, operands have %d' % (op, form, len(r), len(vl)))
    if not H.same_list(list(r), want): return H.fail('%s[%s] on %r, %r, scalar %r gave %r, Python gives %r' % (op, form, vl, wl, s, list(r), want))
    if not H.same_list(list(v), before): return H.fail('operand changed')
    t = H.truthful(r)
    if t: return H.fail(t)
    return True


def h_bin_int(a: Optional[int], b: Optional[int], c: Optional[int], d: Optional[int]) -> bool:
    """
    pre: H.cfg('op') not in ('floordiv', 'mod') or ((c is None or -3 <= c <= 3) and (d is None or -3 <= d <= 3))
    pre: H.cfg('op') != 'pow' or ((c is None or 0 <= c <= 3) and (d is None or 0 <= d <= 3))
    pre: H.cfg('n') == 2 or (b is None and d is None)
    pre: H.cfg('form') in ('vv', 'vl', 'lv') or d is None
    post: _
    """
    H.reset()
    if H.skip(locals()): return True
    n = H.cfg('n')
    form = H.cfg('form'); op = H.cfg('op')
    if form in ('sv', 'lv') and op in ('floordiv', 'mod', 'pow'):
        # reflected: the vector elements are divisor / exponent
        if not all(x is None or (0 <= x <= 3 if op == 'pow' else -3 <= x <= 3) for x in [a, b][:n]): return True
    r = _check(op, form, [a, b][:n], [c, d][:n], c)
    if r is False: return False
    return H.ok()


NUM = [None, True, 2, 2.5, -3, 0, 'x', 1 + 1j, False, -0.5, 10 ** 20, 'ab', 7]   # pow uses the first 10 only (10**20 ** 10**20 does not terminate)
ML = H.cfg('menu', len(NUM))


def h_bin_menu(ai: int, bi: int, ci: int, di: int) -> bool:
    """
    pre: 0 <= ai < ML and 0 <= bi < ML and 0 <= ci < ML and 0 <= di < ML
    pre: H.cfg('n') == 2 or (bi == 0 and di == 0)
    pre: H.cfg('form') != 'self' or (ci == 0 and di == 0)
    post: _
    """
    H.reset()
    if H.skip(locals()): return True
    n = H.cfg('n')
    vl = [H.pick(NUM, ai), H.pick(NUM, bi)][:n]; wl = [H.pick(NUM, ci), H.pick(NUM, di)][:n]
    r = H.concrete(_check, H.cfg('op'), H.cfg('form'), vl, wl, wl[0])
    if r is False: return False
    return H.ok()


def h_mismatch(n: int, m: int, x: int) -> bool:
    """
    pre: 0 <= n <= 3 and 0 <= m <= 3 and n != m
    post: _
    """
    H.reset()
    if H.skip(locals()): return True
    op = H.cfg('op'); form = H.cfg('form')
    vl = [x, 1, 2][:n]; wl = [5, x, 7][:m]
    v = Vector(vl)
    try:
        r = _call(op, form, v, wl, None)
    except Exception:
        if not H.same_list(list(v), vl): return H.fail('operand changed by failing call')
        return H.ok()
    return H.fail('%s[%s] with lengths %d and %d returned %r instead of raising' % (op, form, n, m, r))


def h_unary(a: Optional[int], b: Optional[int], mi: int, n: int) -> bool:
    """
    pre: 0 <= n <= 3 and 0 <= mi < 6
    post: _
    """
    H.reset()
    if H.skip(locals()): return True
    op = H.cfg('op')
    f = {'neg': operator.neg, 'pos': operator.pos, 'abs': abs}[op]
    third = H.pick([None, True, -2.5, 0.0, 1 - 2j, False], mi)
    vl = [a, b, third][:n]
    v = Vector(vl, name='u')
    want = [None if x is None else f(x) for x in vl]
    try:
        r = f(v)
    except Exception as e:
        return H.fail('%s on %r raised %r' % (op, vl, e))
    if len(r) != n: return H.fail('length changed')
    if not H.same_list(list(r), want): return H.fail('%s on %r gave %r, Python gives %r' % (op, vl, list(r), want))
    if not H.same_list(list(v), vl): return H.fail('operand changed')
    t = H.truthful(r)
    if t: return H.fail(t)
    return H.ok()


def h_table(a: Optional[int], b: Optional[int], c: Optional[int], d: Optional[int], s: int, e: Optional[int]) -> bool:
    """
    pre: H.cfg('op') not in ('floordiv', 'mod') or (-3 <= s <= 3 and s != 0 and (e is None or (-3 <= e <= 3 and e != 0)))
    pre: H.cfg('op') != 'pow' or (0 <= s <= 3 and (e is None or 0 <= e <= 3))
    post: _
    """
    H.reset()
    if H.skip(locals()): return True
    op = H.cfg('op'); f = OPS[op]
    t = Table({'p': [a, b], 'q': [c, d]})
    if H.cfg('tt'):
        u = Table({'p': [s, e], 'q': [e, s]})
        try:
            want = [list(f(Vector([a, b]), Vector([s, e]))), list(f(Vector([c, d]), Vector([e, s])))]
        except Exception:
            return True
        try:
            r = f(t, u)
        except Exception as ex:
            return H.fail('table %s table raised %r' % (op, ex))
    else:
        try:
            want = [list(f(Vector([a, b]), s)), list(f(Vector([c, d]), s))]
        except Exception:
            return True
        try:
            r = f(t, s)
        except Exception as ex:
            return H.fail('table %s scalar raised %r' % (op, ex))
    if not isinstance(r, Table): return H.fail('not a table')
    got = [list(col) for col in r.cols()]
    if len(got) != 2 or not H.same_list(got[0], want[0]) or not H.same_list(got[1], want[1]):
        return H.fail('table %s: %r, per-column vector op gives %r' % (op, got, want))
    if not (H.same_list(list(t.p), [a, b]) and H.same_list(list(t.q), [c, d])): return H.fail('operand table changed')
    why = H.rect(r) or H.all_truthful(r)
    if why: return H.fail(why)
    return H.ok()


# ------------------------------------------------------------------ str / date arithmetic
SM = ['a', '', 'B c', None, 'é']
DM = [date(2020, 1, 31), None, date(1999, 12, 31), date(2024, 2, 29)]
TD = [timedelta(days=1), timedelta(days=-400), timedelta(0)]


def h_str_date(i0: int, i1: int, k: int, which: int) -> bool:
    """
    pre: 0 <= i0 <= 4 and 0 <= i1 <= 4 and 0 <= k <= 11 and 0 <= which <= 13
    pre: H.fix(which=which)
    post: _
    """
    H.reset()
    if H.skip(locals()): return True
    i0 = H.pick(list(range(5)), i0); i1 = H.pick(list(range(5)), i1); k = H.pick(list(range(12)), k % 12)
    r = H.concrete(_strdate_body, i0, i1, k, H.cfg('which'))
    if r is False: return False
    if r is None: return True
    return H.ok()


def _strdate_table_body(i0, i1, k, which):
    # a table as left operand is the same operation applied column by column - also for the typed columns whose + is their own (dates: + int adds days)
    if which in (9, 10, 11):
        dl = [H.pick(DM, i0 % 4), H.pick(DM, i1 % 4)]
        if Vector(dl).schema().kind is not date: return None
        kk = H.pick([0, 1, -1, 30, 366, -400], k % 6)
        t = Table({'d': list(dl), 'n': [5, None]})
        if which == 9:
            shown = 'table(date, int) + %r' % kk
            r = t + kk; want = [list(Vector(dl) + kk), list(Vector([5, None]) + kk)]
        elif which == 10:
            u = Table({'x': [kk, 3], 'y': [2, kk]})
            shown = 'table(date, int) + table(int, int)'
            r = t + u; want = [list(Vector(dl) + Vector([kk, 3])), list(Vector([5, None]) + Vector([2, kk]))]
        else:
            td = H.pick(TD, k % 3); t = Table({'d': list(dl), 'e': list(dl[::-1])})
            if Vector(dl[::-1]).schema().kind is not date: return None
            shown = 'table(date, date) - %r' % (td,)
            r = t - td; want = [list(Vector(dl) - td), list(Vector(dl[::-1]) - td)]
    else:
        sl = [H.pick(SM, i0), H.pick(SM, i1)]
        t = Table({'s': list(sl), 'u': ['q', 'r']})
        if which == 12:
            shown = "table(str, str) + 'z'"
            r = t + 'z'; want = [[None if x is None else x + 'z' for x in sl], ['qz', 'rz']]
        else:
            kk = H.pick([0, 1, 2, 3], k % 4)
            shown = 'table(str, str) * %d' % kk
            r = t * kk; want = [[None if x is None else x * kk for x in sl], ['q' * kk, 'r' * kk]]
    if not isinstance(r, Table): return H.fail('%s is not a table' % shown)
    got = [list(col) for col in r.cols()]
    if len(got) != 2 or not H.same_list(got[0], want[0]) or not H.same_list(got[1], want[1]):
        return H.fail('%s: columns %r, the vector operation per column gives %r' % (shown, got, want))
    why = H.rect(r) or H.all_truthful(r)
    if why: return H.fail(why)
    return True


def _strdate_body(i0, i1, k, which):
    if which >= 9:
        try:
            return _strdate_table_body(i0, i1, k, which)
        except Exception as ex:
            return H.fail('table case %d raised %r' % (which, ex))
    if which <= 2:
        vl = [H.pick(SM, i0), H.pick(SM, i1)]
        v = Vector(vl)
        if which == 0:
            r = v + 'z'; want = [None if x is None else x + 'z' for x in vl]
        elif which == 1:
            r = 'z' + v; want = [None if x is None else 'z' + x for x in vl]
        else:
            kk = H.pick([0, 1, 2, 3], k % 4)
            r = v * kk; want = [None if x is None else x * kk for x in vl]
    else:
        vl = [H.pick(DM, i0 % 4), H.pick(DM, i1 % 4)]
        v = Vector(vl)
        if not isinstance(v, Vector) or v.schema().kind is not date:
            return None      # all-None: not a date vector
        if which == 3:
            kk = H.pick([0, 1, -1, 30, 366, -400], k % 6)
            r = v + kk; want = [None if x is None else date.fromordinal(x.toordinal() + kk) for x in vl]
        elif which == 4:
            ks = [H.pick([0, 1, -1, 30], k % 4), 5]
            r = v + Vector(ks); want = [None if x is None else date.fromordinal(x.toordinal() + y) for x, y in zip(vl, ks)]
        elif which == 5:
            td = H.pick(TD, k % 3)
            r = v + td; want = [None if x is None else x + td for x in vl]
        elif which == 6:
            other = [date(2020, 1, 1), H.pick(DM, k % 4)]
            r = v - Vector(other); want = [None if (x is None or y is None) else x - y for x, y in zip(vl, other)]
        elif which == 7:
            td = H.pick(TD, k % 3)
            r = v - td; want = [None if x is None else x - td for x in vl]
        else:
            tds = [H.pick(TD, k % 3), timedelta(days=7)]
            r = v + Vector(tds); want = [None if x is None else x + y for x, y in zip(vl, tds)]
    if len(r) != 2 or not H.same_list(list(r), want): return H.fail('case %d on %r gave %r, Python gives %r' % (which, vl, list(r), want))
    t = H.truthful(r)
    if t: return H.fail(t)
    return True


# ------------------------------------------------------------------ broadcast methods and properties
ELEMS = {
    'str': ['a b', 'Éa', '', ' x\t', '12', 'a,b,a', 'Title Case', 'ß'],
    'int': [5, -3, 0, 2 ** 70, 255, 1, True, -5],
    'float': [2.5, -0.0, 0.0, 1e300, 3.0, float('inf'), -2.5],
    'date': [date(2020, 1, 31), date(1999, 12, 31), date(2024, 2, 29), date(1, 1, 1)],
}
ARGS = {
    ('str', 'center'): (7, '*'), ('str', 'count'): ('a',), ('str', 'endswith'): ('a',), ('str', 'find'): ('a',), ('str', 'format_map'): ({},),
    ('str', 'index'): ('a',), ('str', 'join'): (['x', 'y', 'z'],), ('str', 'ljust'): (5, '.'), ('str', 'maketrans'): ('ab', 'cd'),
    ('str', 'partition'): (' ',), ('str', 'removeprefix'): ('a',), ('str', 'removesuffix'): ('a',), ('str', 'replace'): ('a', 'bb'),
    ('str', 'rfind'): ('a',), ('str', 'rindex'): ('a',), ('str', 'rjust'): (5, '.'), ('str', 'rpartition'): (',',), ('str', 'rsplit'): (',', 1),
    ('str', 'split'): (',', 1), ('str', 'startswith'): ('a',), ('str', 'strip'): (' a',), ('str', 'lstrip'): (' a',), ('str', 'rstrip'): (' a\t',),
    ('str', 'translate'): ({97: 'X', 32: None},), ('str', 'zfill'): (4,), ('str', 'expandtabs'): (4,), ('str', 'encode'): ('utf-8',),
    ('str', 'before'): (',',), ('str', 'after'): (',',), ('str', 'before_last'): (',',), ('str', 'after_last'): (',',), ('str', 'splitlines'): (True,),
    ('int', 'to_bytes'): (16, 'big'), ('int', 'from_bytes'): (b'\x01\x02', 'big'),
    ('float', 'fromhex'): ('0x1.8p1',),
    ('date', 'fromisocalendar'): (2020, 5, 3), ('date', 'fromisoformat'): ('2021-02-03',), ('date', 'fromordinal'): (730000,),
    ('date', 'fromtimestamp'): (86400 * 365,), ('date', 'replace'): (2001, 2), ('date', 'strftime'): ('%Y/%j',),
}
KWARGS = {
    ('str', 'split'): {'sep': ',', 'maxsplit': 1}, ('str', 'rsplit'): {'sep': ',', 'maxsplit': 1}, ('str', 'encode'): {'encoding': 'utf-16', 'errors': 'replace'},
    ('str', 'expandtabs'): {'tabsize': 3}, ('str', 'splitlines'): {'keepends': True}, ('str', 'format'): {'x': 1},
    ('int', 'to_bytes'): {'length': 16, 'byteorder': 'little', 'signed': True}, ('date', 'replace'): {'year': 2001, 'day': 2},
}
KINDS = {'str': str, 'int': int, 'float': float, 'date': date}


def method_names(kind):
    """Every public name of the element type plus every public name the typed vector subclass adds,
    minus what the base Vector defines itself (those are vector operations, not broadcasts)."""
    import serif.vector as sv
    cls = {'str': sv._String, 'int': sv._Int, 'float': sv._Float, 'date': sv._Date}[kind]
    base = set(dir(sv.Vector))
    names = set(n for n in dir(KINDS[kind]) if not n.startswith('_'))
    names |= set(n for n in vars(cls) if not n.startswith('_'))
    return sorted(n for n in names if n not in base)


def _py_method(kind, name, e, args, kwargs={}):
    if name == 'before': return e.partition(*args)[0]
    if name == 'after': return e.partition(*args)[2]
    if name == 'before_last': return e.rpartition(*args)[0]
    if name == 'after_last': return e.rpartition(*args)[2]
    if name == 'eomonth':
        nxt = date(e.year + (e.month == 12), e.month % 12 + 1, 1)
        return nxt - timedelta(days=1)
    attr = getattr(e, name)
    return attr(*args, **kwargs) if callable(attr) else attr


def _method_body(kind, name, vl):
    r1 = _method_body1(kind, name, vl, ARGS.get((kind, name), ()), {})
    if r1 is False: return False
    if (kind, name) in KWARGS:
        r2 = _method_body1(kind, name, vl, (), KWARGS[(kind, name)])      # the same method called with keyword arguments
        if r2 is False: return False
        if r1 is None: return r2
    return r1


def _method_body1(kind, name, vl, args, kwargs):
    want = []
    for e in vl:
        if e is None:
            want.append(None)
            continue
        try:
            want.append(_py_method(kind, name, e, args, kwargs))
        except Exception:
            return None          # Python itself raises for this element: vacuous
    v = Vector(vl, name='m')
    if len(vl) == 0 or all(e is None for e in vl):
        return None              # untyped vector: nothing is broadcast
    try:
        attr = getattr(v, name)
        r = attr(*args, **kwargs) if callable(attr) and not isinstance(attr, Vector) else attr
    except Exception as ex:
        return H.fail('%s vector .%s%r on %r raised %r' % (kind, name, args, vl, ex))
    if not isinstance(r, Vector): return H.fail('%s.%s returned %r' % (kind, name, type(r)))
    got = list(r)
    if len(got) != len(vl): return H.fail('%s.%s changed the length: %r -> %r' % (kind, name, vl, got))
    for g, w, e in zip(got, want, vl):
        ok = H.same(g, w) or (type(g) is type(w) and repr(g) == repr(w))
        if not ok: return H.fail('%s.%s%r: element %r gave %r, Python gives %r' % (kind, name, args, e, g, w))
    if not H.same_list(list(v), vl): return H.fail('operand changed')
    return True


def h_method(mi: int, i0: int, i1: int, i2: int, n: int, m0: bool, m1: bool, m2: bool) -> bool:
    """
    pre: 0 <= mi < len(H.cfg('names'))
    pre: 0 <= i0 < len(ELEMS[H.cfg('kind')]) and 0 <= i1 < len(ELEMS[H.cfg('kind')]) and 0 <= i2 < 2
    pre: 1 <= n <= 3
    post: _
    """
    H.reset()
    if H.skip(locals()): return True
    kind = H.cfg('kind')
    name = H.pick(H.cfg('names'), mi)
    el = ELEMS[kind]
    vl = H.take([None if m0 else H.pick(el, i0), None if m1 else H.pick(el, i1), None if m2 else H.pick(el, i2)], n)
    r = H.concrete(_method_body, kind, name, vl)
    if r is False: return False
    if r is None: return True
    return H.ok()


def obligations(tier):
    q = tier == 'quick'
    obs = []
    for op in OPS:
        for form in FORMS:
            if op != 'truediv':
                for n in (1, 2):
                    if n == 1 and form in ('vl', 'lv'):
                        continue
                    obs.append(dict(name='int[%s,%s,n=%d]' % (op, form, n), fn='h_bin_int', config={'op': op, 'form': form, 'n': n},
                                    budget=60 if q else 400,
                                    bounds='%d-element operands, Optional[int] unbounded symbolic%s' % (n, {'floordiv': ', divisor in [-3,3]', 'mod': ', divisor in [-3,3]', 'pow': ', exponent in [0,3]'}.get(op, '')),
                                    smoke=[[7, None, 2, 3], [0, 5, 1, None], [-4, 2, 3, 1]] if n == 2 and form in ('vv', 'vl', 'lv') else ([[7, None, 2, None], [-4, 2, 3, None]] if n == 2 else [[7, None, 2, None]])))
            M1 = len(NUM) if op != 'pow' else 10
            obs.append(dict(name='menu[%s,%s,n=1]' % (op, form), fn='h_bin_menu', config={'op': op, 'form': form, 'n': 1, 'menu': M1}, budget=60 if q else 300,
                            bounds='1-element operands, every pair from the %d-entry numeric/str menu' % M1, smoke=[[2, 0, 3, 0], [1, 0, 4, 0]]))
            M2 = 6 if q else 9
            obs.append(dict(name='menu[%s,%s,n=2]' % (op, form), fn='h_bin_menu', config={'op': op, 'form': form, 'n': 2, 'menu': M2}, budget=90 if q else 600,
                            bounds='2-element operands, every combination from the first %d menu entries' % M2, smoke=[[2, 3, 3, 1], [0, 1, 1, 4]]))
            if form in ('vv', 'vl', 'lv'):
                obs.append(dict(name='mismatch[%s,%s]' % (op, form), fn='h_mismatch', config={'op': op, 'form': form}, budget=40,
                                bounds='lengths n != m in [0,3]', smoke=[[2, 3, 1], [0, 1, 1]]))
    for op in OPS:
        M1 = len(NUM) if op != 'pow' else 10
        obs.append(dict(name='menu[%s,self,n=2]' % op, fn='h_bin_menu', config={'op': op, 'form': 'self', 'n': 2, 'menu': M1}, budget=60 if q else 300,
                        bounds='v %s v with the same vector object on both sides, 2 elements, every pair from the %d-entry menu' % (op, M1), smoke=[[2, 3, 0, 0], [1, 4, 0, 0]]))
    for op in ('neg', 'pos', 'abs'):
        obs.append(dict(name='unary[%s]' % op, fn='h_unary', config={'op': op}, budget=60 if q else 300,
                        bounds='<=3 elements: two Optional[int] unbounded + one of {None,True,-2.5,0.0,1-2j,False}', smoke=[[3, None, 2, 3], [-1, 0, 0, 2]]))
    for op in OPS:
        if op == 'truediv':
            continue
        for tt in (False, True):
            obs.append(dict(name='table[%s,%s]' % (op, 'table' if tt else 'scalar'), fn='h_table', config={'op': op, 'tt': tt}, budget=90 if q else 400,
                            bounds='2x2 table of Optional[int] unbounded; right operand int scalar or 2x2 table', smoke=[[1, None, 3, 4, 2, 1]]))
    for which in range(14):
        obs.append(dict(name='strdate[%d]' % which, fn='h_str_date', config={'which': which}, budget=40,
                        bounds='2-element str/date vectors from menus incl. None; str + s, s + str, str * k, date + days (scalar, vector), date +- timedelta, date - date; 9-13: the same with a table (date/int, date/date, str/str columns) as left operand against a scalar or a table',
                        smoke=[[0, 3, 1, which]]))
    for kind in ('str', 'int', 'float', 'date'):
        names = method_names(kind)
        G = 4
        for g in range(0, len(names), G):
            grp = names[g:g + G]
            obs.append(dict(name='method[%s:%s..%s]' % (kind, grp[0], grp[-1]), fn='h_method', config={'kind': kind, 'names': grp}, budget=150 if q else 400,
                            bounds='methods/properties %s; vectors of 1..3 elements from the %s menu with a solver-chosen None mask' % (','.join(grp), kind),
                            smoke=[[0, 0, 1, 0, 2, False, True, False]]))
    return obs

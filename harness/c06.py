"""C06 - None is handled uniformly: propagates, compares False, is skipped by reductions."""
import operator, math
from typing import Optional
from datetime import date
from vp import h as H
from vp.h import Vector, Table

H.standard_env()
ASSUMPTIONS = [
    'vector length <= 3; int elements are unbounded symbolic Optional[int] (the None placement is part of the symbolic value) for arithmetic, comparisons, '
    'sum/min/max/any/all/count; mean and stdev use concrete power-of-two witnesses with a solver-chosen None mask and are compared with math.isclose(rel_tol=1e-12)',
    'for an all-None or empty vector only sum == 0, any == False, all == True and len are asserted; min/max/mean/stdev of nothing are left unconstrained',
    'float/str/bool/date/object vectors enter through typed menus with a solver-chosen None mask',
]

ARITH = {'add': operator.add, 'sub': operator.sub, 'mul': operator.mul}
CMP = {'eq': operator.eq, 'ne': operator.ne, 'lt': operator.lt, 'le': operator.le, 'gt': operator.gt, 'ge': operator.ge,
       'and': operator.and_, 'or': operator.or_, 'xor': operator.xor}


def _call(f, form, v, wl, s):
    if form == 'vv': return f(v, Vector(wl))
    if form == 'vs': return f(v, s)
    if form == 'vl': return f(v, list(wl))
    if form == 'sv': return f(s, v)
    if form == 'lv': return f(list(wl), v)
    raise ValueError(form)


def h_prop(a: Optional[int], b: Optional[int], c: Optional[int], x: Optional[int], y: Optional[int], z: Optional[int], s: int, n: int) -> bool:
    """
    pre: H.fix(n=n)
    pre: 1 <= n <= 3
    post: _
    """
    H.reset()
    if H.skip(locals()): return True
    op = H.cfg('op'); form = H.cfg('form'); f = ARITH[op]
    vl = H.take([a, b, c], n); wl = H.take([x, y, z], n)
    v = Vector(vl)
    r = _call(f, form, v, wl, s)
    got = list(r)
    if len(got) != n: return H.fail('length changed')
    for i in range(n):
        p = vl[i]; qv = s if form in ('vs', 'sv') else wl[i]
        if p is None or qv is None:
            if got[i] is not None: return H.fail('%s[%s] %r,%r: None did not propagate at %d: %r' % (op, form, vl, wl, i, got))
        else:
            want = f(qv, p) if form in ('sv', 'lv') else f(p, qv)
            if not H.same(got[i], want): return H.fail('%s[%s] position %d: %r, Python %r' % (op, form, i, got[i], want))
    if (None in got) and not r.schema().nullable: return H.fail('result holds None but is not nullable')
    return H.ok()


def h_cmp(a: Optional[int], b: Optional[int], c: Optional[int], x: Optional[int], y: Optional[int], z: Optional[int], n: int, snone: bool) -> bool:
    """
    pre: H.fix(n=n)
    pre: 1 <= n <= 3
    pre: H.cfg('op') not in ('and', 'or', 'xor') or all(e is None or 0 <= e <= 3 for e in (a, b, c, x, y, z))
    post: _
    """
    H.reset()
    if H.skip(locals()): return True
    op = H.cfg('op'); form = H.cfg('form'); f = CMP[op]
    vl = H.take([a, b, c], n); wl = H.take([x, y, z], n)
    s = None if snone else x
    if form == 'vs' and s is None and op in ('lt', 'le', 'gt', 'ge', 'and', 'or', 'xor'):
        return True      # Python raises for ordering / bitwise ops against None on the non-None positions
    v = Vector(vl)
    r = _call(f, form, v, wl, s)
    got = list(r)
    if len(got) != n: return H.fail('length changed')
    for i in range(n):
        p = vl[i]; qv = s if form == 'vs' else wl[i]
        if form == 'vs' and qv is None:
            # a None *scalar* is not an element: Python's own answer at non-None positions (1 != None is True)
            want = False if p is None else bool(f(p, qv))
        else:
            want = False if (p is None or qv is None) else bool(f(p, qv))
        if got[i] is not want: return H.fail('%s[%s] %r vs %r at %d: %r, expected %r' % (op, form, vl, (s if form == 'vs' else wl), i, got[i], want))
    sch = r.schema()
    if sch.kind is not bool or sch.nullable: return H.fail('comparison result typed %r' % (sch,))
    return H.ok()


def h_cmp_bool(a: Optional[bool], b: Optional[bool], x: Optional[bool], y: Optional[bool], k: int) -> bool:
    """
    pre: 0 <= k <= 3
    post: _
    """
    H.reset()
    if H.skip(locals()): return True
    op = H.cfg('op'); form = H.cfg('form'); f = CMP[op]
    # one position may hold a small int instead of a bool (masks are usually bool, & | ^ are defined on ints too)
    vl = [a, b]; wl = [x, y if k == 0 else k]
    if form == 'vs' and x is None:
        return True      # True & None: Python raises
    v = Vector(vl)
    if form == 'sv' and x is None:
        return True
    r = _call(f, form, v, wl, x)
    if not isinstance(r, Vector): return True      # e.g. True & vector handled by bool itself: no vector operation happened
    got = list(r)
    for i in range(2):
        p = vl[i]; qv = x if form in ('vs', 'sv') else wl[i]
        if form in ('vs', 'sv') and qv is None and p is not None:
            continue     # Python raises for True & None; serif's answer is unconstrained here
        if form in ('sv', 'lv'):
            want = False if (p is None or qv is None) else bool(f(qv, p))
        else:
            want = False if (p is None or qv is None) else bool(f(p, qv))
        if got[i] is not want: return H.fail('%s[%s] %r vs %r at %d: %r, expected %r' % (op, form, vl, (x if form == 'vs' else wl), i, got[i], want))
    sch = r.schema()
    if sch.kind is not bool or sch.nullable: return H.fail('logical result typed %r' % (sch,))
    return H.ok()


def h_reduce_int(a: Optional[int], b: Optional[int], c: Optional[int], n: int) -> bool:
    """
    pre: H.fix(n=n)
    pre: 0 <= n <= 3
    post: _
    """
    H.reset()
    if H.skip(locals()): return True
    vl = H.take([a, b, c], n)
    v = Vector(vl) if n else Vector([], dtype=int)
    clean = [e for e in vl if e is not None]
    if len(v) != n: return H.fail('len does not count None')
    if not H.same(v.sum(), sum(clean)): return H.fail('sum(%r) = %r' % (vl, v.sum()))
    if v.any() is not any(clean): return H.fail('any(%r) = %r' % (vl, v.any()))
    if v.all() is not all(clean): return H.fail('all(%r) = %r' % (vl, v.all()))
    if clean:
        try:
            mx = v.max(); mn = v.min()
        except Exception as e:
            return H.fail('max/min of %r raised %r' % (vl, e))
        if not H.same(mx, max(clean)): return H.fail('max(%r) = %r' % (vl, mx))
        if not H.same(mn, min(clean)): return H.fail('min(%r) = %r' % (vl, mn))
    return H.ok()


W = [1, 2, 4, 8]


def _float_body(mask, n, kind):
    base = {'int': W, 'float': [0.5, 2.0, 4.0, -8.0], 'bool': [True, False, True, True]}[kind]
    vl = [None if mask[i] else base[i] for i in range(n)]
    v = Vector(vl)
    clean = [e for e in vl if e is not None]
    if len(v) != n: return H.fail('len')
    if clean:
        m = v.mean()
        if m is None or not math.isclose(m, sum(clean) / len(clean), rel_tol=1e-12): return H.fail('mean(%r) = %r' % (vl, m))
        if not H.same(v.max(), max(clean)) or not H.same(v.min(), min(clean)): return H.fail('max/min(%r)' % (vl,))
        if not H.same(v.sum(), sum(clean)): return H.fail('sum(%r) = %r' % (vl, v.sum()))
    if len(clean) >= 2:
        mu = sum(clean) / len(clean)
        want = (sum((e - mu) ** 2 for e in clean) / (len(clean) - 1)) ** 0.5
        sd = v.stdev()
        if sd is None or not math.isclose(sd, want, rel_tol=1e-12, abs_tol=1e-15): return H.fail('stdev(%r) = %r, want %r' % (vl, sd, want))
        wantp = (sum((e - mu) ** 2 for e in clean) / len(clean)) ** 0.5
        sdp = v.stdev(population=True)
        if sdp is None or not math.isclose(sdp, wantp, rel_tol=1e-12, abs_tol=1e-15): return H.fail('population stdev(%r) = %r' % (vl, sdp))
    elif clean:
        if v.stdev() is not None: return H.fail('stdev of one value is %r, expected None' % (v.stdev(),))
    return True


def h_reduce_float(m0: bool, m1: bool, m2: bool, m3: bool, n: int) -> bool:
    """
    pre: 1 <= n <= 4
    post: _
    """
    H.reset()
    if H.skip(locals()): return True
    mask = [bool(m0), bool(m1), bool(m2), bool(m3)]
    mask = [True if x else False for x in mask]
    nn = H.pick([0, 1, 2, 3, 4], n)
    if not H.concrete(_float_body, mask, nn, H.cfg('kind')): return False
    return H.ok()


def h_group(k0: int, k1: int, k2: int, a: Optional[int], b: Optional[int], c: Optional[int]) -> bool:
    """
    pre: H.rgs_ok([k0, k1, k2])
    post: _
    """
    H.reset()
    if H.skip(locals()): return True
    ks = [k0, k1, k2]; vs = [a, b, c]
    t = Table({'k': ks, 'v': vs})
    f = t.window if H.cfg('win') else t.aggregate
    out = f(over='k', sum_over='v', min_over='v', max_over='v', count_over='v')
    rows = H.rows_of(out)
    idx = 0
    seen = []
    for i, k in enumerate(ks):
        if H.cfg('win'):
            row = rows[i]
        else:
            if k in seen:
                continue
            seen.append(k)
            row = rows[len(seen) - 1]
        clean = [vs[j] for j in range(3) if ks[j] == k and vs[j] is not None]
        want = (k, sum(clean), min(clean) if clean else None, max(clean) if clean else None, len(clean))
        if not H.same_list(row, want): return H.fail('group %r of keys %r values %r: %r, expected %r' % (k, ks, vs, row, want))
    return H.ok()


def _group_float_body(keys, mask, win):
    vals = [None if m else w for m, w in zip(mask, [1, 2, 4, 8])]
    t = Table({'k': list(keys), 'v': vals})
    f = t.window if win else t.aggregate
    out = f(over='k', mean_over='v', stdev_over='v', sum_over='v', count_over='v')
    rows = H.rows_of(out)
    seen = []
    for i, k in enumerate(keys):
        if win:
            row = rows[i]
        else:
            if k in seen: continue
            seen.append(k); row = rows[len(seen) - 1]
        clean = [vals[j] for j in range(4) if keys[j] == k and vals[j] is not None]
        mean = (sum(clean) / len(clean)) if clean else None
        if len(clean) >= 2:
            sd = (sum((e - mean) ** 2 for e in clean) / (len(clean) - 1)) ** 0.5
        else:
            sd = None
        # emission order: key, sum, mean, count, stdev
        want = (k, sum(clean), mean, len(clean), sd)
        for g, w_ in zip(row, want):
            ok = (g is None and w_ is None) or (g is not None and w_ is not None and math.isclose(g, w_, rel_tol=1e-12, abs_tol=1e-15))
            if not ok: return H.fail('%s of keys %r values %r: row %r, None-skipping textbook gives %r' % ('window' if win else 'aggregate', keys, vals, row, want))
    return True


def h_group_float(k0: int, k1: int, k2: int, k3: int, m0: bool, m1: bool, m2: bool, m3: bool) -> bool:
    """
    pre: H.rgs_ok([k0, k1, k2, k3])
    post: _
    """
    H.reset()
    if H.skip(locals()): return True
    keys = [H.among([0, 1, 2, 3], k) for k in (k0, k1, k2, k3)]
    mask = [True if m else False for m in (m0, m1, m2, m3)]
    if not H.concrete(_group_float_body, keys, mask, H.cfg('win')): return False
    return H.ok()


# ------------------------------------------------------------------ isna / dropna / fillna
TYPED = {
    'int': [5, -1, 0], 'float': [2.5, float('nan'), -0.0], 'str': ['a', '', 'None'], 'bool': [True, False, True],
    'date': [date(2020, 1, 1), date(1999, 12, 31), date(2024, 2, 29)], 'object': [1, 'a', 2.5],
}
FILL = {'int': [7, True, 2.5, 1 + 1j], 'float': [1.5, 3, True], 'str': ['zz', ''], 'bool': [False, True], 'date': [date(2000, 1, 1)],
        'object': [0, 'x', 2.5]}


def _na_body(kind, mask, n, fi, named):
    base = TYPED[kind]
    vl = [None if mask[i] else base[i] for i in range(n)]
    if kind == 'object' or n == 0:
        v = Vector(vl, dtype=(object if kind == 'object' else {'int': int, 'float': float, 'str': str, 'bool': bool, 'date': date}[kind]), name='nm' if named else None)
        if any(mask[:n]) and not v.schema().nullable:
            # declare nullability as inference would
            from serif.typing import DataType
            v = Vector(vl, dtype=DataType(v.schema().kind, nullable=True), name='nm' if named else None)
    else:
        v = Vector(vl, name='nm' if named else None)
    isna = list(v.isna())
    if isna != [e is None for e in vl]: return H.fail('isna(%r) = %r' % (vl, isna))
    try:
        dropped = v.dropna()
    except Exception as e:
        return H.fail('dropna(%r) raised %r' % (vl, e))
    keep = [e for e, m in zip(vl, isna) if not m]
    if not H.same_list(list(dropped), keep): return H.fail('dropna(%r) = %r, isna marks %r' % (vl, list(dropped), isna))
    if dropped.schema() is not None and dropped.schema().nullable: return H.fail('dropna result reports nullable: %r' % (dropped.schema(),))
    x = FILL[kind][fi % len(FILL[kind])]
    try:
        filled = v.fillna(x)
    except Exception as e:
        return H.fail('fillna(%r) on %r raised %r' % (x, vl, e))
    want = [x if m else e for e, m in zip(vl, isna)]
    got = list(filled)
    if len(got) != n: return H.fail('fillna changed the length')
    for g, w, m in zip(got, want, isna):
        if m:
            if not H.same(g, x): return H.fail('fillna(%r) on %r put %r' % (x, vl, g))
        elif not (H.same(g, w) or (g == w and type(g) in (int, float, complex) and type(w) in (int, float, bool, complex))):
            return H.fail('fillna(%r) on %r changed a non-None element: %r -> %r' % (x, vl, w, g))
    if n and filled.schema() is not None and filled.schema().nullable: return H.fail('fillna(%r) result reports nullable: %r' % (x, filled.schema()))
    if not H.same_list(list(v), vl): return H.fail('input changed')
    why = H.truthful(filled) or H.truthful(dropped)
    if why: return H.fail(why)
    # a vector that is declared nullable but holds no None any more (a mask / slice of a nullable vector): fill and drop still report non-nullable
    if any(mask[:n]) and n:
        keepbits = [not m for m in mask[:n]]
        w = v[keepbits]
        if len(w):
            x2 = FILL[kind][fi % len(FILL[kind])]
            try:
                f2 = w.fillna(x2); d2 = w.dropna()
            except Exception as e:
                return H.fail('fillna/dropna on a None-free selection of %r raised %r' % (vl, e))
            if f2.schema() is not None and f2.schema().nullable: return H.fail('fillna(%r) on %r (a None-free selection of a nullable vector) reports nullable: %r' % (x2, list(w), f2.schema()))
            if d2.schema() is not None and d2.schema().nullable: return H.fail('dropna on a None-free selection reports nullable')
            if len(f2) != len(w) or len(d2) != len(w): return H.fail('fill/drop changed a None-free vector')
    # fillna(None) is the identity on contents
    same = v.fillna(None)
    if not H.same_list(list(same), vl): return H.fail('fillna(None) changed contents')
    return True


def h_na(m0: bool, m1: bool, m2: bool, n: int, fi: int, named: bool) -> bool:
    """
    pre: 0 <= n <= 3 and 0 <= fi <= 3
    post: _
    """
    H.reset()
    if H.skip(locals()): return True
    mask = [True if m0 else False, True if m1 else False, True if m2 else False]
    nn = H.pick([0, 1, 2, 3], n); ff = H.pick([0, 1, 2, 3], fi)
    if not H.concrete(_na_body, H.cfg('kind'), mask, nn, ff, True if named else False): return False
    return H.ok()


def h_na_int(a: Optional[int], b: Optional[int], c: Optional[int], x: int, n: int) -> bool:
    """
    pre: 1 <= n <= 3
    post: _
    """
    H.reset()
    if H.skip(locals()): return True
    vl = H.take([a, b, c], n)
    v = Vector(vl)
    isna = list(v.isna())
    for i in range(n):
        if isna[i] is not (vl[i] is None): return H.fail('isna')
    if not H.same_list(list(v.dropna()), [e for e in vl if e is not None]): return H.fail('dropna(%r) = %r' % (vl, list(v.dropna())))
    if not H.same_list(list(v.fillna(x)), [x if e is None else e for e in vl]): return H.fail('fillna(%r)(%r) = %r' % (x, vl, list(v.fillna(x))))
    if v.fillna(x).schema().nullable or v.dropna().schema().nullable: return H.fail('nullable after fill/drop')
    return H.ok()


def obligations(tier):
    q = tier == 'quick'
    obs = []
    for op in ARITH:
        for form in ('vv', 'vs', 'vl', 'sv', 'lv'):
            for n in ((2,) if q else (1, 2, 3)):
                obs.append(dict(name='prop[%s,%s,n=%d]' % (op, form, n), fn='h_prop', config={'op': op, 'form': form, 'n': n}, budget=60 if q else 400,
                                bounds='%d-element operands of unbounded symbolic Optional[int]: every None placement on both sides' % n,
                                smoke=[[1, None, 3, None, 2, 3, 4, n]]))
    for op in ('and', 'or', 'xor'):
        for form in ('vv', 'vs', 'vl', 'sv', 'lv'):
            obs.append(dict(name='logic[%s,%s]' % (op, form), fn='h_cmp_bool', config={'op': op, 'form': form}, budget=60 if q else 300,
                            bounds='2-element operands of symbolic Optional[bool], one position optionally a small int', smoke=[[True, None, False, True, 0]]))
    for op in ('eq', 'ne', 'lt', 'le', 'gt', 'ge'):
        for form in ('vv', 'vs', 'vl'):
            for n in ((2,) if q else (1, 2, 3)):
                obs.append(dict(name='cmp[%s,%s,n=%d]' % (op, form, n), fn='h_cmp', config={'op': op, 'form': form, 'n': n}, budget=60 if q else 400,
                                bounds='%d-element operands of symbolic Optional[int] (unbounded; in [0,3] for & | ^); scalar may be None for == and !=' % n,
                                smoke=[[1, None, 3, None, 2, 3, n, False]]))
    for n in range(4):
        obs.append(dict(name='reduce-int[n=%d]' % n, fn='h_reduce_int', config={'n': n}, budget=90 if q else 400,
                        bounds='%d unbounded symbolic Optional[int] elements: sum, any, all, len; max/min when a non-None exists' % n,
                        smoke=[[1, None, 3, n], [None, None, None, n]]))
    for kind in ('int', 'float', 'bool'):
        obs.append(dict(name='reduce-float[%s]' % kind, fn='h_reduce_float', config={'kind': kind}, budget=60,
                        bounds='1..4 concrete witnesses with every None mask: mean, stdev (sample and population), max, min, sum', smoke=[[False, True, False, False, 4]]))
    for win in (False, True):
        obs.append(dict(name='group[%s]' % ('window' if win else 'aggregate'), fn='h_group', config={'win': win}, budget=120 if q else 400,
                        bounds='3 rows, every key equality pattern, Optional[int] values unbounded: sum/min/max/count skip None per group',
                        smoke=[[0, 1, 0, None, 2, 3]]))
    for win in (False, True):
        obs.append(dict(name='group-mean-stdev[%s]' % ('window' if win else 'aggregate'), fn='h_group_float', config={'win': win}, budget=90,
                        bounds='4 rows, every key equality pattern x every None mask over concrete witnesses: per-group mean / stdev / sum / count skip None (isclose 1e-12)',
                        smoke=[[0, 0, 1, 0, False, True, False, False]]))
    for kind in TYPED:
        obs.append(dict(name='na-triple[%s]' % kind, fn='h_na', config={'kind': kind}, budget=60,
                        bounds='0..3 elements of kind %s with every None mask; fill values %r' % (kind, FILL[kind]), smoke=[[False, True, False, 3, 0, True]]))
    obs.append(dict(name='na-triple[int symbolic]', fn='h_na_int', config={}, budget=90 if q else 300,
                    bounds='1..3 unbounded symbolic Optional[int], symbolic fill value', smoke=[[1, None, 3, 9, 3]]))
    return obs

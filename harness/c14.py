"""C14 - sorting is a stable permutation with direction-independent None placement."""
from typing import Optional
from vp import h as H
from vp.h import Vector, Table

H.standard_env()
ASSUMPTIONS = [
    'rows <= 3 (quick) / 4 (thorough); keys Optional[int], unbounded mathematical integers; other key kinds (str incl. the empty string, float incl. 0.0 and inf, bool, date) are menu-bounded: 3 elements, each a solver-chosen menu entry (kind[...] obligations); NaN keys are outside (no order)',
    'id() of storage tuples replaced by a never-reusing stub (keeps C15 behaviour out of this check)',
    '_sanitize_user_name runs natively on concrete names',
]


def _sorted_contract(rows, keysets, revs, na_last):
    """rows: list of (k..., pos).  Returns reason or None.  keysets: number of keys."""
    n = len(rows)
    K = keysets
    for a, b in zip(rows, rows[1:]):
        # lexicographic compare of a,b under per-key direction / none placement
        decided = False
        for j in range(K):
            ka, kb = a[j], b[j]
            if ka is None and kb is None:
                continue
            if ka is None or kb is None:
                a_first = (kb is None) if na_last else (ka is None)
                if not a_first:
                    return 'None misplaced on key %d: %r before %r' % (j, a, b)
                decided = True
                break
            if ka == kb:
                continue
            if (ka < kb) != (not revs[j]):
                return 'order wrong on key %d: %r before %r' % (j, a, b)
            decided = True
            break
        if not decided and a[K] > b[K]:
            return 'tie not stable: %r before %r' % (a, b)
    return None


def h_table_sort1(k0: Optional[int], k1: Optional[int], k2: Optional[int], k3: Optional[int], n: int, rev: bool, na_last: bool, byvec: bool) -> bool:
    """
    pre: 0 <= n <= H.cfg('R', 3)
    pre: H.fix(n=n, rev=rev, na_last=na_last, byvec=byvec)
    pre: all(x is None for x in [k0, k1, k2, k3][n:])
    post: _
    """
    H.reset()
    if H.skip(locals()): return True
    ks = [k0, k1, k2, k3][:n]
    t = Table({'k': ks, 'pos': list(range(n))})
    before = H.snap(t)
    by = t.k if byvec else 'k'
    out = t.sort_by(by, reverse=rev, na_last=na_last)
    if not isinstance(out, Table): return H.fail('not a table')
    if out.column_names() != ['k', 'pos']: return H.fail('names %r' % (out.column_names(),))
    rows = H.rows_of(out)
    if sorted(r[1] for r in rows) != list(range(n)): return H.fail('not a permutation: %r' % (rows,))
    for r in rows:
        if not H.same(ks[r[1]], r[0]): return H.fail('cells split: %r' % (rows,))
    why = _sorted_contract(rows, 1, [rev], na_last)
    if why: return H.fail(why)
    if not H.snap_eq(before, H.snap(t)): return H.fail('input modified')
    again = out.sort_by('k', reverse=rev, na_last=na_last)
    if not H.rows_eq(H.rows_of(again), rows): return H.fail('sorting a sorted table changed it')
    tr = H.all_truthful(out)
    if tr: return H.fail(tr)
    return H.ok()


def h_table_sort2(a0: Optional[int], a1: Optional[int], a2: Optional[int], b0: Optional[int], b1: Optional[int], b2: Optional[int],
                  n: int, ra: bool, rb: bool, na_last: bool, scalar_rev: bool) -> bool:
    """
    pre: 0 <= n <= 3
    pre: (not scalar_rev) or ra == rb
    pre: H.fix(n=n, ra=ra, rb=rb, na_last=na_last, scalar_rev=scalar_rev)
    pre: all(x is None for x in ([a0, a1, a2][n:] + [b0, b1, b2][n:]))
    post: _
    """
    H.reset()
    if H.skip(locals()): return True
    A = [a0, a1, a2][:n]; B = [b0, b1, b2][:n]
    t = Table({'a': A, 'b': B, 'pos': list(range(n))})
    before = H.snap(t)
    out = t.sort_by(['a', t.b], reverse=(ra if scalar_rev else [ra, rb]), na_last=na_last)
    rows = H.rows_of(out)
    if sorted(r[2] for r in rows) != list(range(n)): return H.fail('not a permutation: %r' % (rows,))
    for r in rows:
        if not (H.same(A[r[2]], r[0]) and H.same(B[r[2]], r[1])): return H.fail('cells split: %r' % (rows,))
    why = _sorted_contract(rows, 2, [ra, rb], na_last)
    if why: return H.fail(why)
    if not H.snap_eq(before, H.snap(t)): return H.fail('input modified')
    return H.ok()


def h_table_sort3(a0: Optional[int], a1: Optional[int], a2: Optional[int], b0: Optional[int], b1: Optional[int], b2: Optional[int],
                  c0: Optional[int], c1: Optional[int], c2: Optional[int], ra: bool, rb: bool, rc: bool, na_last: bool) -> bool:
    """
    pre: a0 is None or a0 == 0 or a0 == 1
    pre: a1 is None or a1 == 0 or a1 == 1
    pre: a2 is None or a2 == 0 or a2 == 1
    pre: b0 is None or b0 == 0 or b0 == 1
    pre: b1 is None or b1 == 0 or b1 == 1
    pre: b2 is None or b2 == 0 or b2 == 1
    pre: H.fix(ra=ra, rb=rb, rc=rc, na_last=na_last)
    post: _
    """
    H.reset()
    if H.skip(locals()): return True
    A = [a0, a1, a2]; B = [b0, b1, b2]; C = [c0, c1, c2]
    t = Table({'a': A, 'b': B, 'c': C, 'pos': [0, 1, 2]})
    out = t.sort_by(('a', 'b', 'c'), reverse=[ra, rb, rc], na_last=na_last)
    rows = H.rows_of(out)
    if sorted(r[3] for r in rows) != [0, 1, 2]: return H.fail('not a permutation: %r' % (rows,))
    for r in rows:
        if not (H.same(A[r[3]], r[0]) and H.same(B[r[3]], r[1]) and H.same(C[r[3]], r[2])): return H.fail('cells split')
    why = _sorted_contract(rows, 3, [ra, rb, rc], na_last)
    if why: return H.fail(why)
    return H.ok()


def h_table_sort_ext(k0: Optional[int], k1: Optional[int], k2: Optional[int], e0: Optional[int], e1: Optional[int], e2: Optional[int], rev: bool, na_last: bool) -> bool:
    """
    pre: H.fix(rev=rev, na_last=na_last)
    post: _
    """
    # the sort key is a vector that is NOT a column of the table (it may even carry a column's name): rows follow the key vector's values
    H.reset()
    if H.skip(locals()): return True
    ks = [k0, k1, k2]; es = [e0, e1, e2]
    t = Table({'k': ks, 'pos': [0, 1, 2]})
    key = Vector(es, name=H.cfg('keyname'))
    out = t.sort_by(key, reverse=rev, na_last=na_last)
    rows = H.rows_of(out)
    if sorted(r[1] for r in rows) != [0, 1, 2]: return H.fail('not a permutation: %r' % (rows,))
    for r in rows:
        if not H.same(ks[r[1]], r[0]): return H.fail('cells split: %r' % (rows,))
    why = _sorted_contract([(es[r[1]], r[1]) for r in rows], 1, [rev], na_last)
    if why: return H.fail('sorted by an external key vector named %r with values %r: %s (rows %r)' % (H.cfg('keyname'), es, why, rows))
    if not H.same_list(list(key), es) or key.name != H.cfg('keyname'): return H.fail('key vector modified')
    return H.ok()


def h_table_sort_repeat(a0: Optional[int], a1: Optional[int], a2: Optional[int], b0: Optional[int], b1: Optional[int], b2: Optional[int], ra: bool, rdup: bool, rb: bool, na_last: bool, form: int) -> bool:
    """
    pre: 0 <= form <= 2
    pre: H.fix(ra=ra, rb=rb, form=form, na_last=na_last)
    post: _
    """
    # the same column is listed twice (by name and as a vector) before another key: the later keys keep THEIR OWN direction flags
    H.reset()
    if H.skip(locals()): return True
    A = [a0, a1, a2]; B = [b0, b1, b2]
    t = Table({'a': A, 'b': B, 'pos': [0, 1, 2]})
    by = [['a', t.a, 'b'], ('a', 'a', t.b), [t.a, 'b', 'b']][form]
    revs = [[ra, rdup, rb], (ra, rdup, rb), [ra, rb, rdup]][form]
    out = t.sort_by(by, reverse=revs, na_last=na_last)
    rows = H.rows_of(out)
    if sorted(r[2] for r in rows) != [0, 1, 2]: return H.fail('not a permutation: %r' % (rows,))
    # a repeated key can never decide anything its first occurrence has not decided: the order is that of (a, b) with directions (ra, rb)
    why = _sorted_contract(rows, 2, [ra, rb], na_last)
    if why: return H.fail('by=%s reverse=%r: %s (rows %r)' % (['name,vector,name', 'names tuple', 'vector,name,name'][form], list(revs), why, rows))
    return H.ok()


def h_vector_sort(k0: Optional[int], k1: Optional[int], k2: Optional[int], k3: Optional[int], n: int, rev: bool, na_last: bool) -> bool:
    """
    pre: 0 <= n <= H.cfg('R', 3)
    pre: H.fix(n=n, rev=rev, na_last=na_last)
    pre: all(x is None for x in [k0, k1, k2, k3][n:])
    post: _
    """
    H.reset()
    if H.skip(locals()): return True
    ks = [k0, k1, k2, k3][:n]
    v = Vector(ks, name='nm')
    before = H.snap(v)
    out = v.sort_by(reverse=rev, na_last=na_last)
    got = list(out)
    if len(got) != n: return H.fail('length changed')
    # permutation (multiset equality)
    rest = list(ks)
    for x in got:
        hit = -1
        for i, y in enumerate(rest):
            if H.same(x, y):
                hit = i
                break
        if hit < 0: return H.fail('not a permutation: %r of %r' % (got, ks))
        del rest[hit]
    rows = [(x, 0) for x in got]
    why = _sorted_contract(rows, 1, [rev], na_last)
    if why: return H.fail(why)
    if not H.snap_eq(before, H.snap(v)): return H.fail('input modified')
    if out.name != 'nm' or out.schema() != v.schema(): return H.fail('name/dtype not kept')
    if not H.same_list(list(out.sort_by(reverse=rev, na_last=na_last)), got): return H.fail('not idempotent')
    tr = H.truthful(out)
    if tr: return H.fail(tr)
    return H.ok()


def h_vector_sort_stable(t0: int, t1: int, t2: int, rev: bool) -> bool:
    """
    pre: 0 <= t0 <= 2 and 0 <= t1 <= 2 and 0 <= t2 <= 2
    post: _
    """
    # ties that are == but distinguishable: 1, True, 1.0 ; stability must hold in both directions
    H.reset()
    if H.skip(locals()): return True
    menu = [1, True, 1.0]
    vals = [H.pick(menu, t0), H.pick(menu, t1), H.pick(menu, t2)]
    out = list(Vector(vals, dtype=object).sort_by(reverse=rev))
    for x, y in zip(out, vals):
        if type(x) is not type(y): return H.fail('equal elements reordered: %r -> %r' % (vals, out))
    return H.ok()


import datetime as _dt
KIND_MENUS = {
    'str': [None, '', 'a', 'B', 'ab'],                    # '' is falsy, 'B' < 'a' < 'ab'
    'float': [None, 0.0, -1.5, 2.0, float('inf')],         # 0.0 is falsy; NaN is outside (no order)
    'bool': [None, False, True],
    'date': [None, _dt.date(2020, 1, 1), _dt.date(1999, 12, 31), _dt.date(2020, 1, 2)],
    'intfalsy': [None, 0, -1, 1],
}


def _kind_body(kind, idx, rev, na_last, target):
    menu = KIND_MENUS[kind]
    ks = [menu[i] for i in idx]
    n = len(ks)
    if target == 'vector':
        v = Vector(ks, name='nm')
        before = H.snap(v)
        try:
            out = v.sort_by(reverse=rev, na_last=na_last)
        except Exception as e:
            return H.fail('Vector(%r).sort_by(reverse=%r, na_last=%r) raised %r' % (ks, rev, na_last, e))
        got = list(out)
        if sorted(map(repr, got)) != sorted(map(repr, ks)): return H.fail('not a permutation: %r of %r' % (got, ks))
        why = _sorted_contract([(x, 0) for x in got], 1, [rev], na_last)
        if why: return H.fail('%r sorted to %r: %s' % (ks, got, why))
        if not H.snap_eq(before, H.snap(v)): return H.fail('input modified')
        if out.name != 'nm' or out.schema() != v.schema(): return H.fail('name/dtype not kept: %r -> %r' % (v.schema(), out.schema()))
        return True
    t = Table({'k': ks, 'pos': list(range(n))})
    before = H.snap(t)
    try:
        out = t.sort_by('k' if target == 'table' else t.k, reverse=rev, na_last=na_last)
    except Exception as e:
        return H.fail('Table(k=%r).sort_by(reverse=%r, na_last=%r) raised %r' % (ks, rev, na_last, e))
    rows = H.rows_of(out)
    if sorted(r[1] for r in rows) != list(range(n)): return H.fail('not a permutation: %r' % (rows,))
    for r in rows:
        if not H.same(ks[r[1]], r[0]): return H.fail('cells split: %r' % (rows,))
    why = _sorted_contract(rows, 1, [rev], na_last)
    if why: return H.fail('keys %r: %s' % (ks, why))
    if not H.snap_eq(before, H.snap(t)): return H.fail('input modified')
    tr = H.all_truthful(out)
    if tr: return H.fail(tr)
    return True


def h_sort_kind(i0: int, i1: int, i2: int, rev: bool, na_last: bool) -> bool:
    """
    pre: 0 <= i0 and 0 <= i1 and 0 <= i2
    pre: i0 < H.cfg('M') and i1 < H.cfg('M') and i2 < H.cfg('M')
    post: _
    """
    # key kinds other than int: three solver-chosen menu entries (every multiset and order), direction and None placement symbolic;
    # once the picks are made no symbolic value reaches serif, so the body runs natively
    H.reset()
    if H.skip(locals()): return True
    M = list(range(H.cfg('M')))
    idx = (H.among(M, i0), H.among(M, i1), H.among(M, i2))
    r_ = H.concrete(_kind_body, H.cfg('kind'), idx, bool(rev), bool(na_last), H.cfg('target'))
    if r_ is not True: return False
    return H.ok()


def obligations(tier):
    q = tier == 'quick'
    R = 3 if q else 4
    obs = []
    B = (False, True)
    # one key: rows 0..R-1 in one job (cheap), R rows split by direction / none placement
    obs.append(dict(name='table1[n<%d]' % R, fn='h_table_sort1', config={'R': R - 1}, budget=60 if q else 200,
                    bounds='rows<%d, 1 key Optional[int] unbounded; reverse, na_last, key by name/vector symbolic' % R,
                    smoke=[[3, 1, None, None, 2, False, True, False]]))
    for rev in B:
        for na in B:
            obs.append(dict(name='table1[n=%d,rev=%d,na_last=%d]' % (R, rev, na), fn='h_table_sort1',
                            config={'R': R, 'n': R, 'rev': rev, 'na_last': na, 'byvec': False}, budget=60 if q else 600,
                            bounds='rows=%d, 1 key Optional[int] unbounded' % R,
                            smoke=[[3, 1, 2, None, R, rev, na, False], [None, 5, 5, 1, R, rev, na, False]]))
    for n in (0, 1, 2):
        for na in B:
            obs.append(dict(name='table2[n=%d,na_last=%d]' % (n, na), fn='h_table_sort2', config={'scalar_rev': False, 'n': n, 'na_last': na},
                            budget=80 if q else 300, bounds='rows=%d, 2 keys Optional[int] unbounded, directions symbolic' % n,
                            smoke=[[1, 1, 0, 2, 1, None, n, False, True, na, False]]))
    for ra in B:
        for rb in B:
            for na in B:
                obs.append(dict(name='table2[n=3,ra=%d,rb=%d,na_last=%d]' % (ra, rb, na), fn='h_table_sort2',
                                config={'n': 3, 'ra': ra, 'rb': rb, 'na_last': na, 'scalar_rev': False}, budget=100 if q else 900,
                                bounds='rows=3, 2 keys Optional[int] unbounded, per-key direction list',
                                smoke=[[1, 1, 0, 2, 1, None, 3, ra, rb, na, False]]))
    for r in B:
        for na in B:
            obs.append(dict(name='table2[n=3,scalar reverse=%d,na_last=%d]' % (r, na), fn='h_table_sort2',
                            config={'n': 3, 'ra': r, 'rb': r, 'scalar_rev': True, 'na_last': na}, budget=100 if q else 900,
                            bounds='rows=3, 2 keys, reverse given as one bool'))
    for rev in B:
        for na in B:
            for kn in ('k', None):
                obs.append(dict(name='table-extkey[name=%s,rev=%d,na_last=%d]' % (kn, rev, na), fn='h_table_sort_ext', config={'keyname': kn, 'rev': rev, 'na_last': na},
                                budget=90 if q else 400, bounds='3 rows; the key is an external Optional[int] vector (unbounded) named like a column / unnamed; column k unbounded too',
                                smoke=[[1, 2, 3, 3, None, 1, rev, na]]))
    for form in ((0, 2) if q else (0, 1, 2)):
        for ra in B:
            for rb in B:
              for na in B:
                obs.append(dict(name='table-repeated-key[form=%d,ra=%d,rb=%d,na_last=%d]' % (form, ra, rb, na), fn='h_table_sort_repeat', config={'form': form, 'ra': ra, 'rb': rb, 'na_last': na}, budget=100 if q else 600,
                                bounds='3 rows, keys a and b Optional[int] unbounded, one key listed twice (names / vectors / tuple form) with its own direction flag, na_last symbolic',
                                smoke=[[1, 1, 0, 2, 1, None, ra, not ra, rb, na, form]]))
    obs.append(dict(name='vector[n<%d]' % R, fn='h_vector_sort', config={'R': R - 1}, budget=40 if q else 200,
                    bounds='len<%d, Optional[int] unbounded' % R, smoke=[[3, None, 1, 2, 2, False, True]]))
    for rev in B:
        for na in B:
            obs.append(dict(name='vector[n=%d,rev=%d,na_last=%d]' % (R, rev, na), fn='h_vector_sort',
                            config={'R': R, 'n': R, 'rev': rev, 'na_last': na}, budget=60 if q else 600,
                            bounds='len=%d, Optional[int] unbounded' % R, smoke=[[3, None, 1, 2, R, rev, na]]))
    obs.append(dict(name='vector-stable', fn='h_vector_sort_stable', config={}, budget=60,
                    bounds='3 elements from {1, True, 1.0}, direction symbolic', smoke=[[0, 1, 2, False]]))
    for kind in ('str', 'float', 'bool', 'date', 'intfalsy'):
        for target in ('vector', 'table', 'table-byvec'):
            obs.append(dict(name='kind[%s,%s]' % (kind, target), fn='h_sort_kind', config={'kind': kind, 'target': target, 'M': len(KIND_MENUS[kind])}, budget=90 if q else 200,
                            bounds='3 elements, each a solver-chosen entry of %r; reverse and na_last symbolic; %s.sort_by' % (KIND_MENUS[kind], 'Vector' if target == 'vector' else 'Table'),
                            smoke=[[0, 1, 2, False, True], [2, 1, 1, True, False]]))
    if not q:
        for ra in B:
            for rb in B:
                for rc in B:
                    obs.append(dict(name='table3[ra=%d,rb=%d,rc=%d]' % (ra, rb, rc), fn='h_table_sort3',
                                    config={'ra': ra, 'rb': rb, 'rc': rc}, budget=900,
                                    bounds='3 rows, 3 keys (two from {None,0,1}, third unbounded), na_last symbolic'))
    return obs

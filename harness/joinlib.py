"""Shared pieces of the join harnesses (C09, C10, C11): table builders, textbook oracles."""
from vp import h as H
from vp.h import Vector, Table


def textbook(kind, lkeys, rkeys, lrows, rrows, wl, wr):
    """Definition-based result rows.  lkeys/rkeys: list of key tuples; lrows/rrows: full row tuples."""
    out = []
    matched_r = set()
    for i, lk in enumerate(lkeys):
        hit = False
        for j, rk in enumerate(rkeys):
            if lk == rk:
                out.append(tuple(lrows[i]) + tuple(rrows[j]))
                matched_r.add(j)
                hit = True
        if not hit and kind in ('left', 'full'):
            out.append(tuple(lrows[i]) + (None,) * wr)
    if kind == 'full':
        for j in range(len(rkeys)):
            if j not in matched_r:
                out.append((None,) * wl + tuple(rrows[j]))
    return out


def call(kind, L, R, lo, ro, expect=None):
    f = {'inner': L.inner_join, 'left': L.join, 'full': L.full_join}[kind]
    if expect is None:
        return f(R, lo, ro)
    return f(R, lo, ro, expect=expect)


def unique(keys):
    seen = []
    for k in keys:
        if k in seen:
            return False
        seen.append(k)
    return True


def build(cols, names):
    """cols: list of python lists (equal length), names parallel."""
    return Table([Vector(list(c), name=nm) for c, nm in zip(cols, names)])


def kinds_agree(lcol, rcol):
    """serif refuses key columns whose inferred kinds differ (all-None column = object); such inputs are outside the join properties."""
    a = [x for x in lcol if x is not None]; b = [x for x in rcol if x is not None]
    if len(lcol) == 0 or len(rcol) == 0:
        return True
    if not a or not b:
        return (not a) and (not b)
    return True


def _pins(nl, nr, K, W, l, r, m, s, p, q, p2, q2, none_class, none_class2):
    ok = True
    for i in range(3):
        if i >= nl:
            ok = ok and l[i] == 0 and m[i] == 0 and p[i] == 0 and p2[i] == 0
        if i >= nr:
            ok = ok and r[i] == 0 and s[i] == 0 and q[i] == 0 and q2[i] == 0
    if K < 2:
        ok = ok and m[0] == 0 and m[1] == 0 and m[2] == 0 and s[0] == 0 and s[1] == 0 and s[2] == 0 and none_class2 == -1
    if W < 1 and H.CONFIG.get('mode') != 'rejoin':
        ok = ok and p[0] == 0 and p[1] == 0 and p[2] == 0 and q[0] == 0 and q[1] == 0 and q[2] == 0
    if H.CONFIG.get('mode') == 'rejoin':
        # p0 = side, q0 = row, x0 = new key class; everything else pinned
        ok = ok and 0 <= p[0] <= 1 and 0 <= q[0] <= 2 and 0 <= p2[0] <= 3 and p[1] == 0 and p[2] == 0 and q[1] == 0 and q[2] == 0
    if W < 2 and H.CONFIG.get('mode') != 'rejoin':
        ok = ok and p2[0] == 0 and p2[1] == 0 and p2[2] == 0 and q2[0] == 0 and q2[1] == 0 and q2[2] == 0
    if H.CONFIG.get('mode') == 'rejoin':
        ok = ok and p2[1] == 0 and p2[2] == 0 and q2[0] == 0 and q2[1] == 0 and q2[2] == 0
    return ok


def join_pre(l0, l1, l2, r0, r1, r2, m0, m1, m2, s0, s1, s2, p0, p1, p2, q0, q1, q2, x0, x1, x2, y0, y1, y2, nc, nc2):
    c = H.CONFIG
    nl, nr, K, W = c['nl'], c['nr'], c.get('K', 1), c.get('W', 1)
    l = [l0, l1, l2]; r = [r0, r1, r2]; m = [m0, m1, m2]; s = [s0, s1, s2]
    if not _pins(nl, nr, K, W, l, r, m, s, [p0, p1, p2], [q0, q1, q2], [x0, x1, x2], [y0, y1, y2], nc, nc2):
        return False
    if not H.rgs_ok(l[:nl] + r[:nr]):
        return False
    if K >= 2 and not H.rgs_ok(m[:nl] + s[:nr]):
        return False
    if c.get('K2const') and not all(x == 0 for x in m[:nl] + s[:nr]):
        return False      # second key column constant: keeps the pattern count of a 3-component key at that of one column
    if not c.get('nones', True):
        if nc != -1 or nc2 != -1:
            return False
    if not (-1 <= nc <= 5 and -1 <= nc2 <= 5):
        return False
    if c.get('ktype') == 'bool':
        # bool keys: at most two non-None classes
        for ks, n_ in ((l[:nl] + r[:nr], nc), (m[:nl] + s[:nr], nc2)):
            for k in ks:
                if k != n_ and not (0 <= k <= 2):
                    return False
            distinct = []
            for k in ks:
                if k != n_ and k not in distinct:
                    distinct.append(k)
            if len(distinct) > 2:
                return False
    return True


def materialise(l0, l1, l2, r0, r1, r2, m0, m1, m2, s0, s1, s2, p0, p1, p2, q0, q1, q2, x0, x1, x2, y0, y1, y2, nc, nc2):
    """Builds the two tables and everything the oracles need from the symbolic cells."""
    c = H.CONFIG
    nl, nr, K, W = c['nl'], c['nr'], c.get('K', 1), c.get('W', 1)
    ktype = c.get('ktype', 'int')
    LK = [H.render_keys([l0, l1, l2][:nl], ktype, nc)]
    RK = [H.render_keys([r0, r1, r2][:nr], ktype, nc)]
    if K >= 2:
        LK.append(H.render_keys([m0, m1, m2][:nl], c.get('ktype2', 'int'), nc2))
        RK.append(H.render_keys([s0, s1, s2][:nr], c.get('ktype2', 'int'), nc2))
    if K >= 3:
        # third key column: the first column's classes rendered as strings (exercises 3-component key tuples
        # without multiplying the number of equality patterns)
        LK.append(H.render_keys([l0, l1, l2][:nl], 'str', nc))
        RK.append(H.render_keys([r0, r1, r2][:nr], 'str', nc))
    knl = ['k', 'j', 'h'][:K]; knr = ['k', 'jj', 'hh'][:K]
    lcols = list(LK); lnames = list(knl)
    rcols = list(RK); rnames = list(knr)
    if W >= 1:
        lcols.append([p0, p1, p2][:nl]); lnames.append('p')
        rcols.append([q0, q1, q2][:nr]); rnames.append('q')
    if W >= 2:
        lcols.append([x0, x1, x2][:nl]); lnames.append('p')      # repeated payload name on the left
        rcols.append([y0, y1, y2][:nr]); rnames.append(None)     # unnamed payload on the right
    for extra in range(c.get('Wr', 0)):
        rcols.append([1000 + extra * 10 + j for j in range(nr)]); rnames.append('extra%d' % extra)      # right-only columns: the two sides differ in width
    for extra in range(c.get('Wl', 0)):
        lcols.append([2000 + extra * 10 + j for j in range(nl)]); lnames.append('lextra%d' % extra)
    # hidden row ids (last column of each side) so that the origin of every output row is observable
    lcols.append(list(range(nl))); lnames.append('lid')
    rcols.append(list(range(100, 100 + nr))); rnames.append('rid')
    return LK, RK, lcols, lnames, rcols, rnames


def key_specs(L, R, LK, RK, spec, K):
    knl = ['k', 'j', 'h'][:K]; knr = ['k', 'jj', 'hh'][:K]
    if spec == 'name':
        lo = knl if K > 1 else 'k'; ro = knr if K > 1 else 'k'
    elif spec == 'col':
        lo = [L[n_] for n_ in knl] if K > 1 else L['k']
        ro = [R[n_] for n_ in knr] if K > 1 else R['k']
    elif spec == 'ext':
        lo = [Vector(list(ks)) for ks in LK] if K > 1 else Vector(list(LK[0]))
        ro = [Vector(list(ks)) for ks in RK] if K > 1 else Vector(list(RK[0]))
    elif spec == 'extnamed':
        # external key vectors that carry the NAME of another column of their table (same length, other values):
        # a key given as a vector is that vector, never a like-named column looked up in its place
        lo = [Vector(list(ks), name='lid') for ks in LK] if K > 1 else Vector(list(LK[0]), name='lid')
        ro = [Vector(list(ks), name='rid') for ks in RK] if K > 1 else Vector(list(RK[0]), name='rid')
    elif spec == 'mixed':
        lo = (['k', L['j']] + knl[2:]) if K > 1 else L['k']
        ro = ([Vector(list(RK[0])), 'jj'] + [R[n_] for n_ in knr[2:]]) if K > 1 else 'k'
    else:
        raise ValueError(spec)
    return lo, ro


def setup(args):
    """Common prologue.  Returns None when the input is outside the join properties (kind mismatch)."""
    c = H.CONFIG
    LK, RK, lcols, lnames, rcols, rnames = materialise(*args)
    for a, b in zip(LK, RK):
        if not kinds_agree(a, b):
            return None
    nl, nr = c['nl'], c['nr']
    if nl == 0 or nr == 0:
        # empty key columns carry no dtype; build them typed so that both sides agree like real empty selections do
        pass
    L = build(lcols, lnames); R = build(rcols, rnames)
    lo, ro = key_specs(L, R, LK, RK, c.get('spec', 'name'), c.get('K', 1))
    lkeys = [tuple(ks[i] for ks in LK) for i in range(nl)]
    rkeys = [tuple(ks[j] for ks in RK) for j in range(nr)]
    lrows = [tuple(col[i] for col in lcols) for i in range(nl)]
    rrows = [tuple(col[j] for col in rcols) for j in range(nr)]
    return L, R, lo, ro, lkeys, rkeys, lrows, rrows, lnames, rnames


def h_join(l0: int, l1: int, l2: int, r0: int, r1: int, r2: int, m0: int, m1: int, m2: int, s0: int, s1: int, s2: int,
           p0: int, p1: int, p2: int, q0: int, q1: int, q2: int, x0: int, x1: int, x2: int, y0: int, y1: int, y2: int,
           nc: int, nc2: int) -> bool:
    """
    pre: join_pre(l0, l1, l2, r0, r1, r2, m0, m1, m2, s0, s1, s2, p0, p1, p2, q0, q1, q2, x0, x1, x2, y0, y1, y2, nc, nc2)
    post: _
    """
    H.reset()
    if H.skip(locals()): return True
    c = H.CONFIG
    args = (l0, l1, l2, r0, r1, r2, m0, m1, m2, s0, s1, s2, p0, p1, p2, q0, q1, q2, x0, x1, x2, y0, y1, y2, nc, nc2)
    if c.get('mode') == 'rejoin':
        dom = [-1, 0, 1, 2, 3, 4, 5, 6]
        conc = [H.among(dom, a) for a in args[:6]] + [0] * 18 + [-1, -1]
        # the written cell: side (l2 slot re-used when nl < 3 is not possible, so extra symbolic picks ride on the unused payload slots)
        c['_write'] = (H.among([0, 1], p0), H.among([0, 1, 2], q0), H.among([0, 1, 2, 3], x0))
        r_ = H.concrete(_join_body, tuple(conc))
    elif c.get('mode') == 'contain':
        # all values that matter here are key classes: let the solver pick them, then run the four joins natively
        dom = [-1, 0, 1, 2, 3, 4, 5, 6]
        conc = [H.among(dom, a) for a in args[:12]] + [0] * 12 + [H.among(dom, nc), H.among(dom, nc2)]
        r_ = H.concrete(_join_body, tuple(conc))
    else:
        r_ = _join_body(args)
    if r_ is None: return True
    if r_ is False: return False
    return H.ok()


def _join_body(args):
    c = H.CONFIG
    st = setup(args)
    if st is None: return None
    L, R, lo, ro, lkeys, rkeys, lrows, rrows, lnames, rnames = st
    snapL = H.snap(L); snapR = H.snap(R)
    mode = c.get('mode', 'rows')
    kind = c['kind']
    wl, wr = len(lnames), len(rnames)
    if mode == 'self':
        # a table joined with itself (the same object on both sides)
        out = call(kind, L, L, lo, lo, 'many_to_many')
        why = check_rows(kind, out, lkeys, lkeys, lrows, lrows, lnames, lnames)
        if why: return H.fail('self-join: ' + why)
    elif mode == 'rows':
        exp = c.get('expect', 'many_to_many')
        if exp != 'many_to_many':
            # a cardinality expectation that holds must not change the result (C11 owns the raising side)
            if exp in ('one_to_one', 'one_to_many') and not unique(lkeys): return None
            if exp in ('one_to_one', 'many_to_one') and not unique(rkeys): return None
        out = call(kind, L, R, lo, ro, exp)
        why = check_rows(kind, out, lkeys, rkeys, lrows, rrows, lnames, rnames)
        if why: return H.fail(why)
    elif mode == 'contain':
        inner = H.rows_of(call('inner', L, R, lo, ro, 'many_to_many'))
        left = H.rows_of(call('left', L, R, lo, ro, 'many_to_many'))
        full = H.rows_of(call('full', L, R, lo, ro, 'many_to_many'))
        if not subseq(inner, left): return H.fail('inner rows %r are not an ordered sub-multiset of left rows %r' % (inner, left))
        if not subseq(left, full): return H.fail('left rows %r are not an ordered sub-multiset of full rows %r' % (left, full))
        nl, nr = len(lkeys), len(rkeys)
        if nl:
            lids = [r_[wl - 1] for r_ in left]
            for i in range(nl):
                if i not in lids: return H.fail('left row %d missing from the left join: %r' % (i, left))
            fl = [r_[wl - 1] for r_ in full]
            for i in range(nl):
                if i not in fl: return H.fail('left row %d missing from the full join' % i)
        if nl or nr:
            fr = [r_[wl + wr - 1] for r_ in full]
            for j in range(nr):
                if (100 + j) not in fr: return H.fail('right row %d missing from the full join: %r' % (j, full))
        # swapping the tables of a full join: same rows up to column and row order
        swapped = H.rows_of(call('full', R, L, ro, lo, 'many_to_many'))
        a = sorted([repr(tuple(r_)) for r_ in full])
        b = sorted([repr(tuple(r_[wr:]) + tuple(r_[:wr])) for r_ in swapped])
        if (nl or nr) and a != b: return H.fail('full_join(L,R) %r and full_join(R,L) %r differ beyond column/row order' % (full, swapped))
    elif mode == 'card':
        why = check_card(kind, c['expect'], L, R, lo, ro, lkeys, rkeys, lrows, rrows, lnames, rnames)
        if why: return H.fail(why)
    elif mode == 'rejoin':
        # join, write a key cell in place (solver-chosen side, row and new key class), join again: the second call sees the new keys
        expect = c.get('expect', 'many_to_many')
        try:
            call(kind, L, R, 'k', 'k', expect)
        except Exception:
            pass
        side, row, newk = c['_write']
        tbl, keys, rows_ = (L, lkeys, lrows) if side == 0 else (R, rkeys, rrows)
        if row >= len(keys): return None
        tbl[row, 'k'] = newk
        keys[row] = (newk,)
        rows_[row] = (newk,) + tuple(rows_[row][1:])
        snapL = H.snap(L); snapR = H.snap(R)
        if expect == 'many_to_many':
            out = call(kind, L, R, 'k', 'k', expect)
            why = check_rows(kind, out, lkeys, rkeys, lrows, rrows, lnames, rnames)
        else:
            why = check_card(kind, expect, L, R, 'k', 'k', lkeys, rkeys, lrows, rrows, lnames, rnames)
        if why: return H.fail('after joining once and then writing key %r into row %d of the %s table: %s' % (newk, row, 'left' if side == 0 else 'right', why))
    else:
        raise ValueError(mode)
    if not H.snap_eq(snapL, H.snap(L)) or not H.snap_eq(snapR, H.snap(R)): return H.fail('an input table was modified')
    return True


def subseq(a, b):
    """a is an order-preserving sub-multiset of b."""
    j = 0
    for x in a:
        while j < len(b) and not H.same_list(x, b[j]):
            j += 1
        if j == len(b):
            return False
        j += 1
    return True


def check_rows(kind, out, lkeys, rkeys, lrows, rrows, lnames, rnames):
    want = textbook(kind, lkeys, rkeys, lrows, rrows, len(lnames), len(rnames))
    if not isinstance(out, Table): return '%s join returned %r' % (kind, type(out))
    if len(want) == 0:
        if len(out) != 0: return '%s join: expected no rows, got %r' % (kind, H.rows_of(out))
        if out.column_names() != list(lnames) + list(rnames): return '%s join with no result rows: column names %r, expected %r' % (kind, out.column_names(), list(lnames) + list(rnames))
        return H.rect(out)
    got = H.rows_of(out)
    if not H.rows_eq(got, want): return '%s join of keys %r x %r: rows %r, definition gives %r' % (kind, lkeys, rkeys, got, want)
    if out.column_names() != list(lnames) + list(rnames): return '%s join: column names %r, expected %r' % (kind, out.column_names(), list(lnames) + list(rnames))
    return H.rect(out) or H.all_truthful(out)


def check_card(kind, expect, L, R, lo, ro, lkeys, rkeys, lrows, rrows, lnames, rnames):
    from serif.errors import SerifValueError
    lu = unique(lkeys); ru = unique(rkeys)
    if expect == 'default':
        default = {'inner': 'many_to_one', 'left': 'many_to_one', 'full': 'many_to_many'}[kind]
        need_l = default in ('one_to_one', 'one_to_many'); need_r = default in ('one_to_one', 'many_to_one')
        arg = None
    else:
        need_l = expect in ('one_to_one', 'one_to_many'); need_r = expect in ('one_to_one', 'many_to_one')
        arg = expect
    bogus = expect not in ('default', 'one_to_one', 'many_to_one', 'one_to_many', 'many_to_many')
    must_raise = bogus or (need_l and not lu) or (need_r and not ru)
    try:
        out = call(kind, L, R, lo, ro, arg)
        raised = None
    except SerifValueError as e:
        raised = e
    if must_raise:
        if raised is None: return '%s join expect=%r on keys %r x %r (left unique %r, right unique %r) did not raise' % (kind, expect, lkeys, rkeys, lu, ru)
        return None
    if raised is not None: return '%s join expect=%r on keys %r x %r (left unique %r, right unique %r) raised %r' % (kind, expect, lkeys, rkeys, lu, ru, raised)
    ref = call(kind, L, R, lo, ro, 'many_to_many')
    if not H.rows_eq(H.rows_of(out), H.rows_of(ref)): return '%s join expect=%r: rows %r differ from the many_to_many result %r' % (kind, expect, H.rows_of(out), H.rows_of(ref))
    if out.column_names() != ref.column_names(): return 'column names differ from the many_to_many result'
    return check_rows(kind, out, lkeys, rkeys, lrows, rrows, lnames, rnames)


def smoke(nl, nr, K=1, W=1):
    """A few concrete inputs in the canonical form."""
    z = [0] * 26
    out = []
    def mk(l, r, m=(0, 0, 0), s=(0, 0, 0), nc=-1):
        a = list(z)
        a[0:3] = (list(l) + [0, 0, 0])[:3]; a[3:6] = (list(r) + [0, 0, 0])[:3]
        if K >= 2:
            a[6:9] = m; a[9:12] = s
        if W >= 1:
            a[12:15] = [7, 8, 9][:nl] + [0] * (3 - nl); a[15:18] = [70, 80, 90][:nr] + [0] * (3 - nr)
        if W >= 2:
            a[18:21] = [1, 2, 3][:nl] + [0] * (3 - nl); a[21:24] = [4, 5, 6][:nr] + [0] * (3 - nr)
        a[24] = nc; a[25] = -1
        for i in range(3):
            if i >= nl: a[i] = 0; a[6 + i] = 0
            if i >= nr: a[3 + i] = 0; a[9 + i] = 0
        return a
    seqs = {(2, 2): [((0, 1), (1, 0)), ((0, 0), (0, 1)), ((0, 1), (2, 2))], (3, 3): [((0, 1, 0), (1, 1, 2)), ((0, 1, 2), (3, 4, 5))],
            (1, 2): [((0,), (0, 0))], (2, 1): [((0, 0), (0,))], (1, 1): [((0,), (1,))], (0, 2): [((), (0, 1))], (2, 0): [((0, 1), ())], (0, 0): [((), ())],
            (3, 2): [((0, 1, 0), (0, 2))], (2, 3): [((0, 1), (1, 1, 2))], (1, 3): [((0,), (0, 1, 0))], (3, 1): [((0, 0, 1), (0,))], (0, 3): [((), (0, 1, 1))], (3, 0): [((0, 1, 1), ())],
            (0, 1): [((), (0,))], (1, 0): [((0,), ())]}
    for l, r in seqs.get((nl, nr), []):
        # keep restricted growth over l ++ r
        cells = list(l) + list(r); mx = -1; okc = True
        for cc in cells:
            if cc > mx + 1: okc = False
            mx = max(mx, cc)
        if okc:
            out.append(mk(l, r))
    return out

"""ONE obligation in ONE process.

    VP_JOB='{"module": "harness.c14", "fn": "h_table_sort", "config": {...}, "budget": 60,
             "twin_budget": 20, "exclude": [...], "seed": 0, "smoke": [[...], ...]}' python -m vp.job

Order of work: import the harness (which imports /repo/src/serif as it is now), run the smoke
inputs natively, analyse the reachability twin, analyse the obligation.  Prints one line
`VPJOB <json>`.
"""
import os, sys, json, time, traceback

t_start = time.time()
JOB = json.loads(os.environ['VP_JOB'])

sys.setrecursionlimit(3000)


def main():
    out = {'module': JOB['module'], 'fn': JOB['fn'], 'config': JOB.get('config', {}), 'name': JOB.get('name')}
    try:
        from vp import engine_ch
        engine_ch.configure()
        import importlib
        from vp import h as H
        mod = importlib.import_module(JOB['module'])
        H._compile_excludes(vars(mod))
        fn = getattr(mod, JOB['fn'])
    except BaseException as e:
        out.update(status='ENGINE_ERROR', message='import failed: %r' % (e,), traceback=traceback.format_exc()[-3000:])
        return out
    out['startup_s'] = round(time.time() - t_start, 3)

    # ---- smoke inputs (native, concrete)
    smoke_done = 0
    for args in JOB.get('smoke', []):
        try:
            H.TWIN = False
            r = fn(*args)
        except Exception as e:
            r = False
            H.WHY.append('raised %r' % (e,))
        smoke_done += 1
        if r is not True:
            import inspect
            names = list(inspect.signature(fn).parameters)
            out.update(status='COUNTEREXAMPLE', kind='SMOKE', message='smoke input failed: %s' % '; '.join(H.WHY[-3:]),
                       args=dict(zip(names, args)), smoke=smoke_done)
            return out
    out['smoke'] = smoke_done

    # ---- reachability twin
    stats0 = dict(engine_ch.STATS)
    if JOB.get('twin', True):
        H.TWIN = True
        try:
            tw = engine_ch.analyze(fn, JOB.get('twin_budget', 30), JOB.get('seed', 0))
        except BaseException as e:
            tw = {'status': 'ENGINE_ERROR', 'message': 'twin: %r' % (e,), 'traceback': traceback.format_exc()[-2000:]}
        H.TWIN = False
        out['twin'] = {'status': tw['status'], 'args': tw.get('args'), 'message': tw.get('message', '')[:300],
                       'paths': engine_ch.STATS['paths'] - stats0['paths']}
    stats1 = dict(engine_ch.STATS)

    # ---- the obligation itself
    t0 = time.time()
    try:
        res = engine_ch.analyze(fn, JOB.get('budget', 60), JOB.get('seed', 0))
    except BaseException as e:
        res = {'status': 'ENGINE_ERROR', 'message': 'analysis crashed: %r' % (e,), 'traceback': traceback.format_exc()[-3000:]}
    out.update(res)
    out['paths'] = engine_ch.STATS['paths'] - stats1['paths']
    out['solver_checks'] = engine_ch.STATS['solver_checks'] - stats1['solver_checks']
    out['solver_s'] = round(engine_ch.STATS['solver_s'] - stats1['solver_s'], 3)
    out['analysis_wall_s'] = round(time.time() - t0, 3)
    return out


if __name__ == '__main__':
    o = main()
    o['wall_s'] = round(time.time() - t_start, 3)
    sys.stdout.write('\nVPJOB ' + json.dumps(o, default=repr) + '\n')
    sys.stdout.flush()
    os._exit(0)

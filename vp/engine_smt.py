"""Engine B: direct SMT for typeutils.slice_length (DESIGN.md section 1, C07/C08 slice-lemma).

Lemma (unbounded n >= 0, unbounded start/stop or None, each concrete step in +-1..+-STEPS):
    slice_length(slice(start, stop, step), n) == number of indices visited by
    range(*slice(start, stop, step).indices(n))

* the arithmetic of slice_length's return expression is RE-TRANSLATED FROM THE FUNCTION'S AST on
  every run; the translator fails closed (unknown AST shape -> ENGINE_ERROR, never a pass);
* slice.indices (C code) is modelled by hand after PySlice_AdjustIndices; the model and the
  translation are validated on every run against the real functions on a concrete grid;
* the negated lemma is decided by z3 (python API) and the emitted SMT-LIB2 is cross-checked with
  the /usr/bin/z3 and cvc5 binaries; any disagreement or `(error` line is an ENGINE_ERROR;
* a `sat` answer is turned into concrete (start, stop, step, n) and replayed on the real function.
"""
import ast, inspect, os, subprocess, sys, time, json, hashlib, tempfile

ROOT = os.path.dirname(os.path.dirname(os.path.abspath(__file__)))
SERIF_SRC = os.environ.get('SERIF_SRC', '/repo/src')


class Unsupported(Exception):
    pass


def _pydiv(z3, a, b):
    """Python floor division of a z3 Int by a concrete non-zero python int."""
    if b > 0:
        return a / b          # z3 Int `div` with positive divisor == floor
    return (-a) / (-b)


def translate_return(z3, fn, env):
    src = inspect.getsource(fn)
    tree = ast.parse(src).body[0]
    body = [s for s in tree.body if not (isinstance(s, ast.Expr) and isinstance(s.value, ast.Constant))]
    if len(body) != 2 or not isinstance(body[0], ast.Assign) or not isinstance(body[1], ast.Return):
        raise Unsupported('function body shape: ' + '; '.join(type(s).__name__ for s in body))
    first = ast.unparse(body[0])
    arg0, arg1 = [a.arg for a in tree.args.args][:2]
    if first != 'start, stop, step = %s.indices(%s)' % (arg0, arg1):
        raise Unsupported('first statement: ' + first)

    def ev(e):
        if isinstance(e, ast.Constant) and isinstance(e.value, int):
            return e.value
        if isinstance(e, ast.Name):
            if e.id not in env:
                raise Unsupported('name ' + e.id)
            return env[e.id]
        if isinstance(e, ast.UnaryOp) and isinstance(e.op, ast.USub):
            return -ev(e.operand)
        if isinstance(e, ast.BinOp):
            l, r = ev(e.left), ev(e.right)
            if isinstance(e.op, ast.Add): return l + r
            if isinstance(e.op, ast.Sub): return l - r
            if isinstance(e.op, ast.Mult):
                if isinstance(l, int) or isinstance(r, int): return l * r
                raise Unsupported('symbolic * symbolic')
            if isinstance(e.op, ast.FloorDiv):
                if not isinstance(r, int) or r == 0: raise Unsupported('divisor not a concrete non-zero int')
                if isinstance(l, int): return l // r
                return _pydiv(z3, l, r)
            raise Unsupported('operator ' + type(e.op).__name__)
        if isinstance(e, ast.IfExp):
            c = ev(e.test)
            if not isinstance(c, bool): raise Unsupported('symbolic condition')
            return ev(e.body) if c else ev(e.orelse)
        if isinstance(e, ast.Compare) and len(e.ops) == 1:
            l, r = ev(e.left), ev(e.comparators[0])
            if not (isinstance(l, int) and isinstance(r, int)): raise Unsupported('symbolic comparison')
            t = type(e.ops[0])
            table = {ast.Gt: l > r, ast.Lt: l < r, ast.GtE: l >= r, ast.LtE: l <= r, ast.Eq: l == r, ast.NotEq: l != r}
            if t not in table: raise Unsupported('comparison ' + t.__name__)
            return table[t]
        if isinstance(e, ast.Call) and isinstance(e.func, ast.Name) and e.func.id in ('max', 'min') and len(e.args) == 2 and not e.keywords:
            a, b = ev(e.args[0]), ev(e.args[1])
            if isinstance(a, int) and isinstance(b, int):
                return max(a, b) if e.func.id == 'max' else min(a, b)
            return z3.If(a >= b, a, b) if e.func.id == 'max' else z3.If(a <= b, a, b)
        raise Unsupported(ast.dump(e)[:120])
    return ev(body[1].value)


def indices_model(z3, start_none, start, stop_none, stop, step, n):
    """CPython PySlice_Unpack + PySlice_AdjustIndices (Objects/sliceobject.c), concrete step."""
    If = z3.If
    if step > 0:
        s0 = If(start_none, 0, If(start < 0, If(start + n < 0, 0, start + n), If(start >= n, n, start)))
        e0 = If(stop_none, n, If(stop < 0, If(stop + n < 0, 0, stop + n), If(stop >= n, n, stop)))
    else:
        s0 = If(start_none, n - 1, If(start < 0, If(start + n < 0, -1, start + n), If(start >= n, n - 1, start)))
        e0 = If(stop_none, -1, If(stop < 0, If(stop + n < 0, -1, stop + n), If(stop >= n, n - 1, stop)))
    return s0, e0


def _external(smt2, tool):
    with tempfile.NamedTemporaryFile('w', suffix='.smt2', delete=False, dir='/dev/shm' if os.path.isdir('/dev/shm') else None) as f:
        f.write(smt2)
        path = f.name
    try:
        cmd = ['/usr/bin/z3', '-T:60', path] if tool == 'z3-4.8.12' else ['cvc5', '--tlimit=60000', path]
        p = subprocess.run(cmd, capture_output=True, text=True, timeout=90)
        out = (p.stdout + p.stderr).strip()
        if '(error' in out:
            return 'error: ' + out[:200]
        return out.split()[0] if out else 'no-output'
    except Exception as e:
        return 'error: %r' % (e,)
    finally:
        os.unlink(path)


def slice_lemma(tier, pid='C07'):
    import z3
    sys.path.insert(0, SERIF_SRC)
    import importlib
    tu = importlib.import_module('serif.typeutils')
    steps = [1, 2, 3, 4, -1, -2, -3, -4] if tier == 'quick' else [s for k in range(1, 9) for s in (k, -k)]
    results = []
    # ---- validation of the hand model of slice.indices and of the translator on a concrete grid
    bad = []
    t0 = time.time()
    grid_n = 0
    for n_ in range(0, 6):
        for a in [None] + list(range(-7, 8)):
            for b in [None] + list(range(-7, 8)):
                for st in steps:
                    grid_n += 1
                    real_idx = slice(a, b, st).indices(n_)
                    s0, e0 = indices_model(z3, z3.BoolVal(a is None), z3.IntVal(a or 0), z3.BoolVal(b is None), z3.IntVal(b or 0), st, z3.IntVal(n_))
                    m = (z3.simplify(s0).as_long(), z3.simplify(e0).as_long(), st)
                    if m != tuple(real_idx):
                        bad.append(('indices-model', a, b, st, n_, m, real_idx))
                        continue
                    try:
                        enc = translate_return(z3, tu.slice_length, {'start': real_idx[0], 'stop': real_idx[1], 'step': st})
                    except Unsupported as e:
                        return [{'name': 'slice-lemma', 'status': 'ENGINE_ERROR', 'message': 'translator does not cover the current source: %s' % e,
                                 'solver_checks': 0, 'solver_s': 0}]
                    enc = enc if isinstance(enc, int) else z3.simplify(enc).as_long()
                    if enc != tu.slice_length(slice(a, b, st), n_):
                        bad.append(('translation', a, b, st, n_, enc, tu.slice_length(slice(a, b, st), n_)))
    if bad:
        return [{'name': 'slice-lemma', 'status': 'ENGINE_ERROR', 'message': 'encoding validation failed on the concrete grid: %r' % (bad[:3],),
                 'solver_checks': 0, 'solver_s': 0}]
    for step in steps:
        start, stop, n, L = z3.Ints('start stop n L')
        sn, en = z3.Bools('sn en')
        s0, e0 = indices_model(z3, sn, start, en, stop, step, n)
        try:
            got = translate_return(z3, tu.slice_length, {'start': s0, 'stop': e0, 'step': step})
        except Unsupported as e:
            results.append({'name': 'slice-lemma[step=%d]' % step, 'status': 'ENGINE_ERROR', 'message': 'translator: %s' % e, 'solver_checks': 0, 'solver_s': 0})
            continue
        # L := the number of k >= 0 with s0 + k*step strictly before e0 in the direction of step
        if step > 0:
            spec = z3.And(L >= 0, z3.Implies(s0 >= e0, L == 0), z3.Implies(s0 < e0, z3.And(s0 + (L - 1) * step < e0, s0 + L * step >= e0)))
        else:
            spec = z3.And(L >= 0, z3.Implies(s0 <= e0, L == 0), z3.Implies(s0 > e0, z3.And(s0 + (L - 1) * step > e0, s0 + L * step <= e0)))
        s = z3.Solver()
        s.set('timeout', 60000)
        s.add(n >= 0, spec, got != L)
        t = time.time()
        r = str(s.check())
        dt = time.time() - t
        smt2 = '(set-logic ALL)\n' + s.to_smt2()
        ext = {tool: _external(smt2, tool) for tool in ('z3-4.8.12', 'cvc5')}
        rec = {'name': 'slice-lemma[step=%d]' % step, 'engine': 'direct-smt', 'solver_checks': 3, 'solver_s': round(dt, 3),
               'bounds': 'n >= 0, start/stop unbounded integers or None, step = %d' % step, 'z3-5.1': r, 'cross_check': ext,
               'functions_encoded': ['typeutils.slice_length'], 'grid_validated': grid_n}
        answers = set([r] + [v for v in ext.values()])
        if r == 'unsat' and all(v in ('unsat', 'unknown', 'timeout') or v.startswith('no-output') for v in ext.values()) and 'unsat' in ext.values():
            rec['status'] = 'UNSAT'
        elif r == 'sat':
            m = s.model()
            val = lambda v: m.eval(v, model_completion=True)
            a = None if z3.is_true(val(sn)) else val(start).as_long()
            b = None if z3.is_true(val(en)) else val(stop).as_long()
            nn = val(n).as_long()
            real = tu.slice_length(slice(a, b, step), nn)
            truth = len(range(*slice(a, b, step).indices(nn)))
            if real != truth:
                rdir = os.path.join(os.environ.get('VP_SCRATCH') or ROOT, 'replays', pid)
                os.makedirs(rdir, exist_ok=True)
                args = {'start': a, 'stop': b, 'step': step, 'n': nn}
                digest = hashlib.sha1(json.dumps(args, sort_keys=True).encode()).hexdigest()[:10]
                rpath = os.path.join(rdir, 'slice-lemma-%s.json' % digest)
                json.dump({'property': pid, 'obligation': rec['name'], 'module': 'harness.c07', 'fn': 'h_slice_length_native', 'config': {},
                           'args': args, 'native': {'slice_length': real, 'indices_visited': truth}}, open(rpath, 'w'), indent=1)
                rec.update(status='VIOLATION', replay=rpath, why=['slice_length(slice(%r,%r,%r), %d) = %d but range visits %d indices' % (a, b, step, nn, real, truth)])
            else:
                rec.update(status='ENGINE_ERROR', message='sat model does not replay on the real function: %r' % ((a, b, step, nn),))
        else:
            rec.update(status='INCONCLUSIVE', message='solver answers: %r' % (sorted(answers),))
        if len([v for v in answers if v in ('sat', 'unsat')]) > 1:
            rec.update(status='ENGINE_ERROR', message='solvers disagree: %r %r' % (r, ext))
        results.append(rec)
    return results


if __name__ == '__main__':
    for r in slice_lemma(sys.argv[1] if len(sys.argv) > 1 else 'quick'):
        print(r)

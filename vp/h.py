"""Helpers shared by every harness module.

Importable both under CrossHair (job process, /verif/.venv) and in a plain interpreter with
no CrossHair at all (native replay, /venv/bin/python).  Nothing in here re-implements serif:
it holds the job configuration, the environment stubs of DESIGN.md section 2.3, the shared
oracles (same / truthful / rect / snap) and the small utilities harnesses use to report why a
postcondition is false.
"""
import os, sys, json, math, warnings, contextlib

SERIF_SRC = os.environ.get('SERIF_SRC', '/repo/src')
if SERIF_SRC not in sys.path:
    sys.path.insert(0, SERIF_SRC)

try:                                    # present in the job process, absent in native replay
    from crosshair.tracers import NoTracing, is_tracing
    HAVE_CH = True
except Exception:                       # pragma: no cover - plain interpreter
    HAVE_CH = False
    NoTracing = contextlib.nullcontext
    def is_tracing():
        return False

warnings.simplefilter('ignore')

import serif
import serif.naming, serif.table, serif.vector, serif.display, serif.alias_tracker, serif.typing
from serif import Vector, Table, AliasError
from serif.typing import DataType, infer_dtype
from datetime import date, datetime

# ------------------------------------------------------------------ job configuration
_JOB = json.loads(os.environ.get('VP_JOB', '{}') or '{}')
CONFIG = _JOB.get('config', {})
TWIN = False            # set by the engine while the reachability twin is analysed
WHY = []                # reasons recorded by fail() during the last native call
REACHED_END = [False]


def cfg(key, default=None):
    return CONFIG.get(key, default)


def fix(**kw):
    """Precondition helper: pins a parameter to the job's configured value when the job
    configuration names it (splits one harness into many parallel obligations); leaves it
    symbolic otherwise."""
    for k, v in kw.items():
        if k in CONFIG and v != CONFIG[k]:
            return False
    return True


_EXCL_SRC = list(_JOB.get('exclude', []))
_EXCL = []


def _compile_excludes(ns):
    _EXCL[:] = [(src, compile(src, '<known-finding>', 'eval')) for src in _EXCL_SRC]
    _EXCL_NS.clear(); _EXCL_NS.update(ns)


_EXCL_NS = {}


def skip(args):
    """True when the arguments match a known finding that has already been reported for this
    obligation.  Used as `if H.skip(locals()): return True` on the first line of a harness:
    logically an added precondition `not match` (DESIGN.md 2.5)."""
    for src, code in _EXCL:
        if eval(code, _EXCL_NS, dict(args)):
            return True
    return False


def concrete(fn, *args):
    """Run `fn(*args)` with tracing off.  Used by menu-bounded obligations *after* the solver has
    decided every symbolic index: from then on no symbolic value flows into serif, so interpreting
    the code under the tracer or running it natively gives the same result; natively it is ~20x
    cheaper.  In a plain interpreter this is just a call."""
    with NoTracing():
        return fn(*args)


def fail(why):
    with NoTracing():
        try:
            WHY.append(str(why))
        except Exception:
            WHY.append('<unprintable reason>')
    return False


def ok():
    """Final statement of every harness: `return H.ok()`."""
    REACHED_END[0] = True
    return not TWIN


# ------------------------------------------------------------------ environment stubs
_orig_sanitize = getattr(serif.naming, '_sanitize_user_name', None)      # perf stub only; absent after a refactoring -> no stub


def _fast_sanitize(name):
    """Runs the *current* _sanitize_user_name natively iff its argument is concrete."""
    with NoTracing():
        concrete = (type(name) is str) or name is None
    if concrete:
        with NoTracing():
            return _orig_sanitize(name)
    return _orig_sanitize(name)


def install_sanitize_stub():
    if _orig_sanitize is None:
        return
    for m in (serif.naming, serif.table, serif.vector, serif.display):
        if getattr(m, '_sanitize_user_name', None) is _orig_sanitize:
            m._sanitize_user_name = _fast_sanitize


def remove_sanitize_stub():
    for m in (serif.naming, serif.table, serif.vector, serif.display):
        if getattr(m, '_sanitize_user_name', None) is _fast_sanitize:
            m._sanitize_user_name = _orig_sanitize


class FreshId:
    """id() as seen from serif modules, for tuples only: unique per object, never reused.
    Keeps C15's identity-reuse behaviour out of every other property's check."""
    def __init__(self):
        self.keep = []
        self.n = 1 << 40

    def __call__(self, obj):
        if type(obj) is not tuple:
            return id(obj)
        for o, i in self.keep:
            if o is obj:
                return i
        self.n += 16
        self.keep.append((obj, self.n))
        return self.n


_FRESH = [None]


def install_fresh_id():
    f = FreshId()
    _FRESH[0] = f
    serif.vector.id = f
    serif.table.id = f


def remove_fresh_id():
    for m in (serif.vector, serif.table):
        if 'id' in m.__dict__:
            del m.__dict__['id']


P61 = (1 << 61) - 1


def model_hash(x):
    """CPython's int hash (Objects/longobject.c, sys.hash_info.modulus = 2**61-1):
    sign(x) * (abs(x) mod P), with -1 mapped to -2.  Symbolic in, symbolic out.
    Everything that is not a plain int goes to the real hash()."""
    if type(x) is not int and not (HAVE_CH and _is_sym_int(x)):
        return hash(x)
    a = x if x >= 0 else -x
    r = a % P61
    h = r if x >= 0 else -r
    if h == -1:
        h = -2
    return h


def _is_sym_int(x):
    with NoTracing():
        try:
            from crosshair.libimpl.builtinslib import SymbolicInt
            return isinstance(x, SymbolicInt)
        except Exception:
            return False


def check_model_hash():
    grid = [0, 1, -1, 2, -2, 7, -7, 2**31, -2**31, 2**63, -2**63, 2**64, -2**64, 10**30, -10**30]
    for d in (-2, -1, 0, 1, 2):
        for k in (1, 2, 3, 1000):
            grid += [k * P61 + d, -(k * P61 + d)]
    bad = [x for x in grid if model_hash(x) != hash(x)]
    return len(grid), bad


def install_model_hash():
    serif.vector.hash = model_hash


def remove_model_hash():
    if 'hash' in serif.vector.__dict__:
        del serif.vector.__dict__['hash']


def reset():
    """Process-global state back to a fixed point; first statement of every harness body."""
    with NoTracing():
        try:                                  # determinism aids only: never let an internal rename turn into an alarm
            serif.alias_tracker._ALIAS_TRACKER._registry.clear()
        except Exception:
            pass
        try:
            serif.set_repr_rows(None)
        except Exception:
            pass
        if _FRESH[0] is not None:
            _FRESH[0].keep.clear(); _FRESH[0].n = 1 << 40
        del WHY[:]
        REACHED_END[0] = False


def standard_env(fresh_id=True, sanitize=True):
    try:
        serif.naming._get_reserved_names()      # warm the cache so that every path sees the same state
    except Exception:
        pass
    if sanitize:
        install_sanitize_stub()
    if fresh_id:
        install_fresh_id()


# ------------------------------------------------------------------ oracles
def same(x, y):
    """Both None, or both NaN, or same type and equal."""
    if x is None or y is None:
        return x is None and y is None
    if type(x) is not type(y):
        return False
    if isinstance(x, float) and x != x:
        return y != y
    if isinstance(x, complex) and x != x:
        return y != y
    return x == y


def same_list(xs, ys):
    xs = list(xs); ys = list(ys)
    if len(xs) != len(ys):
        return False
    for a, b in zip(xs, ys):
        if not same(a, b):
            return False
    return True


_LADDER = {bool: (bool,), int: (bool, int), float: (bool, int, float),
           complex: (bool, int, float, complex), date: (date,), datetime: (date, datetime)}


def belongs(e, kind):
    """Does a non-None element belong to `kind`, counting only the documented widenings
    bool->int->float->complex and date->datetime?"""
    if kind is object:
        return True
    t = type(e)
    if kind in _LADDER:
        if kind is date:
            return t is date
        if kind is datetime:
            return t is datetime or t is date
        return t in _LADDER[kind]
    return t is kind or isinstance(e, kind)


def truthful(v):
    """C03 invariant for one vector; returns None when fine, a reason string otherwise."""
    sch = v.schema()
    vals = list(v)
    if sch is None:
        if len(vals) == 0:
            return None
        return 'schema() is None on a non-empty vector'
    for i, e in enumerate(vals):
        if e is None:
            if not sch.nullable:
                return 'None at %d but schema %r not nullable' % (i, sch)
        elif not belongs(e, sch.kind):
            return 'element %r (%s) at %d does not belong to %r' % (e, type(e).__name__, i, sch)
    return None


def all_truthful(*objs):
    for o in objs:
        if isinstance(o, Table):
            for c in o.cols():
                r = truthful(c)
                if r:
                    return r
        elif isinstance(o, Vector):
            r = truthful(o)
            if r:
                return r
    return None


def rect(t):
    """C02 invariant; None when fine, reason otherwise."""
    cols = t.cols()
    n = len(t)
    for j, c in enumerate(cols):
        if len(c) != n:
            return 'column %d has length %d, len(table) is %d' % (j, len(c), n)
    shp = t.shape
    if tuple(shp) != (n, len(cols)):
        return 'shape %r but %d rows x %d cols' % (shp, n, len(cols))
    it_rows = [tuple(r) for r in t]
    if len(it_rows) != n:
        return 'iteration gave %d rows, len is %d' % (len(it_rows), n)
    for i in range(n):
        want = tuple(list(c)[i] for c in cols)
        got = tuple(t[i])
        if not same_list(got, want):
            return 'row %d by index %r != column view %r' % (i, got, want)
        if not same_list(it_rows[i], want):
            return 'row %d by iteration %r != column view %r' % (i, it_rows[i], want)
    return None


def vsnap(v):
    return ('V', list(v), v.name, v.schema())


def tsnap(t):
    return ('T', list(t.column_names()), [list(c) for c in t.cols()], [c.schema() for c in t.cols()], len(t))


def snap(o):
    if isinstance(o, Table):
        return tsnap(o)
    return vsnap(o)


def snap_eq(a, b):
    if a[0] != b[0]:
        return False
    if a[0] == 'V':
        return same_list(a[1], b[1]) and a[2] == b[2] and a[3] == b[3]
    if a[1] != b[1] or a[4] != b[4] or a[3] != b[3] or len(a[2]) != len(b[2]):
        return False
    for x, y in zip(a[2], b[2]):
        if not same_list(x, y):
            return False
    return True


def rows_of(t):
    return [tuple(r) for r in t]


def rows_eq(a, b):
    if len(a) != len(b):
        return False
    for x, y in zip(a, b):
        if not same_list(x, y):
            return False
    return True


# ------------------------------------------------------------------ canonical-form keys
def rgs_ok(ks):
    """Restricted growth string: one representative per equality pattern of the cells."""
    m = -1
    for k in ks:
        if k < 0 or k > m + 1:
            return False
        if k > m:
            m = k
    return True


_DATES = [date(2020, 1, 1), date(2020, 1, 2), date(2021, 6, 30), date(1999, 12, 31),
          date(2000, 2, 29), date(2024, 3, 1), date(2030, 1, 1), date(1970, 1, 1)]
_STRS = ['a', 'b', 'A', '', 'a ', 'ab', 'é', 'z']
# pairwise distinct ints whose hashes collide in pairs (hash(-1) == hash(-2), hash(0) == hash(2**61-1), hash(1) == hash(2**61), ...):
# code that inspects keys through the hash alone would confuse them
_HASHY = [-1, -2, 0, 2 ** 61 - 1, 1, 2 ** 61, 2 * (2 ** 61 - 1), 2]


def render_key(k, kind, none_class=-1):
    """Map a canonical class number to a concrete key of the requested kind."""
    if k == none_class:
        return None
    if kind == 'int':
        return k
    if kind == 'str':
        return _STRS[k]
    if kind == 'bool':
        return k == 1
    if kind == 'date':
        return _DATES[k]
    if kind == 'hashy':
        return _HASHY[k]
    raise ValueError(kind)


def render_keys(ks, kind, none_class=-1):
    # explicit branches so that the class number stays symbolic until compared
    out = []
    for k in ks:
        if kind == 'int':
            out.append(None if k == none_class else k)
        else:
            v = None
            found = False
            for c in range(8):
                if k == c:
                    v = render_key(c, kind, none_class); found = True
                    break
            if not found:
                raise ValueError('class out of menu')
            out.append(v)
    return out


def among(values, x):
    """The concrete member of `values` equal to the symbolic x (explicit branching)."""
    for v in values:
        if x == v:
            return v
    raise ValueError('value outside the stated domain')


def take(lst, n):
    """lst[:n] for a symbolic n, by explicit branching (the result is a plain concrete list)."""
    for k in range(len(lst) + 1):
        if n == k:
            return list(lst[:k])
    raise IndexError(n)


def pick(menu, i):
    """Menu selection by symbolic index with explicit branches (keeps the index symbolic
    until compared, makes each menu entry its own path)."""
    for j in range(len(menu)):
        if i == j:
            return menu[j]
    raise IndexError(i)

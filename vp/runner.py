"""./check <Cxx> quick|thorough   |   ./check --replay <file>

Schedules the obligations of one property on worker processes (one CrossHair process per
obligation), replays every counterexample and every twin witness in a plain interpreter,
applies KNOWN_FINDINGS.txt, writes evidence/<id>.json and sets the exit code:
  0  held on everything explored (inconclusive obligations are listed in the evidence)
  1  a replayed violation that KNOWN_FINDINGS.txt does not list   (prints VIOLATION ...)
  2  harness error (vacuous obligation, engine crash, failing Engine-B self-validation)
"""
import os, sys, json, time, fnmatch, hashlib, subprocess, importlib, re, shlex, inspect
from concurrent.futures import ThreadPoolExecutor, as_completed

ROOT = os.path.dirname(os.path.dirname(os.path.abspath(__file__)))
PY_CH = os.path.join(ROOT, '.venv', 'bin', 'python')
PY_PLAIN = '/venv/bin/python'
MAX_KNOWN_ROUNDS = 12
# VP_SCRATCH (mutant self-test only): evidence and replay files go there instead of /verif
OUT = os.environ.get('VP_SCRATCH') or ROOT


def log(*a):
    print(*a, flush=True)


# ------------------------------------------------------------------ known findings
def load_known(pid):
    path = os.path.join(ROOT, 'KNOWN_FINDINGS.txt')
    out = []
    if not os.path.exists(path):
        return out
    for line in open(path):
        line = line.strip()
        if not line.startswith('finding:'):
            continue
        m = re.match(r'finding:\s+property=(\S+)\s+obligation=(\S+)\s+match="((?:[^"\\]|\\.)*)"\s+::\s*(.*)$', line)
        if not m:
            raise SystemExit('KNOWN_FINDINGS.txt: cannot parse: ' + line)
        if m.group(1) != pid:
            continue
        out.append({'obligation': m.group(2), 'match': m.group(3).replace('\\"', '"'), 'text': m.group(4)})
    return out


# ------------------------------------------------------------------ processes
def run_job(job, env_extra=None):
    env = dict(os.environ)
    env['VP_JOB'] = json.dumps(job)
    env['PYTHONHASHSEED'] = str(job.get('hashseed', 0))
    env.pop('PYTHONPATH', None)
    if env_extra:
        env.update(env_extra)
    # CrossHair's own deadline is CPU time; the wall limit only guards against a hang (e.g. a concrete
    # computation that does not terminate) and is generous so that a loaded machine cannot trip it.
    wall = job.get('budget', 60) * 4 + job.get('twin_budget', 30) + 180
    t = time.time()
    last = None
    for attempt in (1, 2):
        try:
            p = subprocess.run([PY_CH, '-m', 'vp.job'], cwd=ROOT, env=env, capture_output=True, text=True, timeout=wall)
        except subprocess.TimeoutExpired as e:
            return {'status': 'INCONCLUSIVE', 'message': 'job exceeded the wall limit of %ds (hang guard); no verdict' % wall, 'name': job['name'],
                    'wall_s': time.time() - t, 'paths': 0, 'solver_checks': 0, 'solver_s': 0}
        for line in reversed(p.stdout.splitlines()):
            if line.startswith('VPJOB '):
                r = json.loads(line[6:])
                r['name'] = job['name']
                if r.get('status') == 'ENGINE_ERROR' and attempt == 1:
                    last = r
                    break                 # one retry: engine hiccups (e.g. a nondeterminism report) must not look like a broken check
                return r
        else:
            last = {'status': 'ENGINE_ERROR', 'name': job['name'], 'wall_s': time.time() - t,
                    'message': 'no result line; rc=%s stderr tail: %s' % (p.returncode, p.stderr[-800:])}
    return last


def run_replays(items):
    """items: list of dicts for vp.replay; returns {id: result}.  Plain interpreter."""
    if not items:
        return {}
    res = {}
    CH = 40
    chunks = [items[i:i + CH] for i in range(0, len(items), CH)]

    def one(chunk, k):
        path = os.path.join('/dev/shm' if os.path.isdir('/dev/shm') else '/tmp', 'vp_replay_%d_%d.json' % (os.getpid(), k))
        json.dump(chunk, open(path, 'w'))
        env = dict(os.environ)
        env.pop('PYTHONPATH', None)
        env['PYTHONHASHSEED'] = '0'
        try:
            p = subprocess.run([PY_PLAIN, '-m', 'vp.replay', path], cwd=ROOT, env=env, capture_output=True, text=True, timeout=600)
            for line in reversed(p.stdout.splitlines()):
                if line.startswith('VPREPLAY '):
                    return json.loads(line[9:])
            return [{'id': it['id'], 'result': 'harness_error', 'exception': 'replay batch failed: ' + p.stderr[-500:]} for it in chunk]
        except subprocess.TimeoutExpired:
            return [{'id': it['id'], 'result': 'harness_error', 'exception': 'replay batch timeout'} for it in chunk]
        finally:
            try:
                os.unlink(path)
            except OSError:
                pass
    with ThreadPoolExecutor(max_workers=8) as ex:
        for rs in ex.map(lambda a: one(a[1], a[0]), list(enumerate(chunks))):
            for r in rs:
                res[r['id']] = r
    return res


def eval_match(expr, modname, config, args):
    """Evaluate a known-finding match expression natively on concrete arguments."""
    code = ("import os, sys, json\n"
            "os.environ['VP_JOB'] = %r\n"
            "import importlib\n"
            "m = importlib.import_module(%r)\n"
            "ns = dict(vars(m))\n"
            "print('VPMATCH', bool(eval(%r, ns, %r)))\n") % (json.dumps({'config': config}), modname, expr, args)
    env = dict(os.environ); env.pop('PYTHONPATH', None)
    p = subprocess.run([PY_PLAIN, '-c', code], cwd=ROOT, env=env, capture_output=True, text=True, timeout=120)
    for line in p.stdout.splitlines():
        if line.startswith('VPMATCH '):
            return line.split()[1] == 'True'
    return False


# ------------------------------------------------------------------ main flow
def check(pid, tier, only=None, jobs=None, verbose=False):
    t0 = time.time()
    seed = int(os.environ.get('VERIF_SEED', '0') or 0)
    modname = 'harness.' + pid.lower()
    sys.path.insert(0, ROOT)
    os.environ.setdefault('VP_JOB', '{}')
    mod = importlib.import_module(modname)
    obligations = mod.obligations(tier)
    if only:
        obligations = [o for o in obligations if fnmatch.fnmatch(o['name'], only)]
    names = [o['name'] for o in obligations]
    assert len(set(names)) == len(names), 'duplicate obligation names: %r' % [n for n in names if names.count(n) > 1]
    known = load_known(pid)
    nworkers = jobs or int(os.environ.get('VP_WORKERS', '0') or 0) or max(1, min(16, os.cpu_count() or 1))

    engine_b = getattr(mod, 'engine_b', None)
    b_results = []
    harness_errors = []
    if engine_b is not None and not only:
        try:
            b_results = engine_b(tier)
        except Exception as e:
            harness_errors.append('engine_b crashed: %r' % (e,))

    state = {}
    for o in obligations:
        state[o['name']] = {'ob': o, 'exclude': [], 'known_hits': [], 'runs': [], 'final': None, 'violation': None, 'spurious': []}

    pending = list(names)
    known_printed = set()
    violations = []
    replays_done = 0
    functions_encoded = set()
    round_no = 0
    while pending and round_no < MAX_KNOWN_ROUNDS:
        round_no += 1
        results = {}
        # longest budgets first
        order = sorted(pending, key=lambda n: -state[n]['ob'].get('budget', 60))
        with ThreadPoolExecutor(max_workers=nworkers) as ex:
            futs = {}
            for n in order:
                st = state[n]; o = st['ob']
                job = {'name': n, 'module': modname, 'fn': o['fn'], 'config': o.get('config', {}),
                       'budget': o.get('budget', 60), 'twin_budget': o.get('twin_budget', 30),
                       'exclude': list(st['exclude']), 'seed': seed, 'smoke': o.get('smoke', []) if round_no == 1 else [],
                       'twin': (round_no == 1) and o.get('twin', True), 'hashseed': o.get('hashseed', 0)}
                futs[ex.submit(run_job, job)] = n
            for f in as_completed(futs):
                n = futs[f]
                r = f.result()
                results[n] = r
                state[n]['runs'].append(r)
                if verbose:
                    log('  [%s] %s paths=%s wall=%s %s' % (r.get('status'), n, r.get('paths'), r.get('wall_s'), (r.get('message') or '')[:160]))
        # ---- replay counterexamples and twin witnesses natively
        items = []
        for n, r in results.items():
            o = state[n]['ob']
            if r.get('status') == 'COUNTEREXAMPLE' and isinstance(r.get('args'), dict) and '__capture_error__' not in r['args']:
                items.append({'id': 'ce:' + n, 'module': modname, 'fn': o['fn'], 'config': o.get('config', {}), 'args': r['args']})
            tw = r.get('twin')
            if tw and tw.get('status') == 'COUNTEREXAMPLE' and isinstance(tw.get('args'), dict):
                items.append({'id': 'tw:' + n, 'module': modname, 'fn': o['fn'], 'config': o.get('config', {}), 'args': tw['args'], 'profile': True})
        rep = run_replays(items)
        replays_done += len(rep)
        next_pending = []
        for n, r in results.items():
            st = state[n]; o = st['ob']
            tw = r.get('twin')
            if tw is not None:
                st['twin'] = tw
                trep = rep.get('tw:' + n)
                if tw.get('status') == 'COUNTEREXAMPLE' and trep is not None:
                    st['twin_replay'] = {'result': trep.get('result'), 'reached_end': trep.get('reached_end')}
                    for fnn in trep.get('functions', []):
                        functions_encoded.add(fnn)
                    if trep.get('result') is True and trep.get('reached_end'):
                        st['twin_ok'] = True
                    else:
                        # the witness reaches the end under the twin but fails natively: that is a
                        # counterexample of the obligation itself; the main analysis will report it.
                        st['twin_ok'] = bool(trep.get('reached_end')) or trep.get('result') is not True
                elif tw.get('status') == 'CONFIRMED' or (tw.get('status') == 'PRE_UNSAT' and r.get('status') == 'PRE_UNSAT'):
                    # twin CONFIRMED: every path returns before the final ok(); PRE_UNSAT in both runs: no input meets the precondition.
                    # (a twin that is PRE_UNSAT while the main analysis got past the precondition merely ran out of its small budget)
                    st['twin_ok'] = False
                    harness_errors.append('%s: vacuous obligation (twin %s)' % (n, tw.get('status')))
                else:
                    st['twin_ok'] = None     # twin inconclusive within its budget
            status = r.get('status')
            if status == 'ENGINE_ERROR':
                st['final'] = 'ENGINE_ERROR'
                harness_errors.append('%s: %s' % (n, (r.get('message') or '')[:300]))
                continue
            if status != 'COUNTEREXAMPLE':
                st['final'] = status
                continue
            crep = rep.get('ce:' + n)
            if crep is None:
                st['final'] = 'ENGINE_ERROR'
                harness_errors.append('%s: counterexample without captured arguments: %s' % (n, (r.get('message') or '')[:200]))
                continue
            if crep.get('result') == 'harness_error':
                st['final'] = 'ENGINE_ERROR'
                harness_errors.append('%s: replay failed: %s' % (n, crep.get('exception')))
                continue
            if crep.get('result') is True:
                # engine artefact: does not reproduce on the real build
                st['spurious'].append({'args': r['args'], 'message': (r.get('message') or '')[:300]})
                excl = ' and '.join('(%s == %r)' % (k, v) for k, v in r['args'].items() if v == v) or 'False'
                if len(st['spurious']) <= 3 and excl != 'False':
                    st['exclude'].append(excl)
                    next_pending.append(n)
                else:
                    st['final'] = 'INCONCLUSIVE'
                continue
            # reproduced natively
            matched = None
            for k in known:
                if fnmatch.fnmatch(n, k['obligation']) and eval_match(k['match'], modname, o.get('config', {}), r['args']):
                    matched = k
                    break
            if matched is not None:
                key = (matched['obligation'], matched['match'])
                if key not in known_printed:
                    known_printed.add(key)
                    log('KNOWN-FINDING: property=%s %s' % (pid, matched['text']))
                st['known_hits'].append({'args': r['args'], 'finding': matched['text']})
                if matched['match'] not in st['exclude']:
                    st['exclude'].append(matched['match'])
                    next_pending.append(n)
                else:
                    st['final'] = 'ENGINE_ERROR'
                    harness_errors.append('%s: exclusion %r did not exclude %r' % (n, matched['match'], r['args']))
                continue
            # a violation the file does not list
            digest = hashlib.sha1(json.dumps([n, r['args']], sort_keys=True, default=repr).encode()).hexdigest()[:10]
            rdir = os.path.join(OUT, 'replays', pid)
            os.makedirs(rdir, exist_ok=True)
            rpath = os.path.join(rdir, '%s-%s.json' % (re.sub(r'[^A-Za-z0-9_.-]+', '_', n), digest))
            json.dump({'property': pid, 'obligation': n, 'module': modname, 'fn': o['fn'], 'config': o.get('config', {}),
                       'args': r['args'], 'engine_message': r.get('message'), 'kind': r.get('kind'),
                       'native': {'result': crep.get('result'), 'why': crep.get('why'), 'exception': crep.get('exception'),
                                  'traceback': crep.get('traceback')},
                       'how_to_replay': './check --replay ' + os.path.relpath(rpath, ROOT)}, open(rpath, 'w'), indent=1, default=repr)
            st['final'] = 'VIOLATION'
            st['violation'] = {'args': r['args'], 'why': crep.get('why'), 'exception': crep.get('exception'), 'replay': rpath}
            violations.append((n, rpath, crep))
        pending = next_pending
    for n in pending:
        state[n]['final'] = 'INCONCLUSIVE'
        state[n]['note'] = 'known-finding exclusion rounds exhausted'

    for b in b_results:
        if b.get('status') == 'VIOLATION':
            violations.append((b['name'], b.get('replay', ''), b))
        elif b.get('status') == 'ENGINE_ERROR':
            harness_errors.append('%s: %s' % (b['name'], b.get('message')))

    # ------------------------------------------------------------------ evidence
    tot_paths = sum(r.get('paths', 0) or 0 for st in state.values() for r in st['runs'])
    tot_checks = sum(r.get('solver_checks', 0) or 0 for st in state.values() for r in st['runs']) + sum(b.get('solver_checks', 0) for b in b_results)
    tot_solver_s = sum(r.get('solver_s', 0) or 0 for st in state.values() for r in st['runs']) + sum(b.get('solver_s', 0) for b in b_results)
    finals = [st['final'] for st in state.values()]
    discharged = sum(1 for f in finals if f == 'CONFIRMED') + sum(1 for b in b_results if b.get('status') in ('UNSAT', 'VALIDATED'))
    samples = []
    for n in names:
        st = state[n]; last = st['runs'][-1] if st['runs'] else {}
        s = {'obligation': n, 'harness': st['ob']['fn'], 'config': st['ob'].get('config', {}), 'bounds': st['ob'].get('bounds', ''),
             'status': st['final'], 'paths': sum(r.get('paths', 0) or 0 for r in st['runs']),
             'solver_checks': sum(r.get('solver_checks', 0) or 0 for r in st['runs']),
             'solver_s': round(sum(r.get('solver_s', 0) or 0 for r in st['runs']), 3),
             'wall_s': round(sum(r.get('wall_s', 0) or 0 for r in st['runs']), 2),
             'twin': (st.get('twin') or {}).get('status'), 'twin_witness': (st.get('twin') or {}).get('args'),
             'twin_replayed_to_end': st.get('twin_ok')}
        if st['known_hits']:
            s['known_findings_hit'] = st['known_hits'][:3]
            s['excluded_by_known_finding'] = st['exclude']
        if st['spurious']:
            s['spurious_engine_counterexamples'] = st['spurious']
        if st['violation']:
            s['violation'] = st['violation']
        samples.append(s)
    for b in b_results:
        samples.append(b)
    n_obl = len(names) + len(b_results)
    inconclusive = [n for n in names if state[n]['final'] in ('INCONCLUSIVE', 'PRE_UNSAT')]
    ev = {
        'property_id': pid, 'tier': tier, 'seed': seed, 'level': 'model_checking',
        'coverage': {
            'states': max(1, tot_paths), 'transitions': max(1, tot_checks),
            'traces_validated_against_impl': replays_done,
            'samples': samples,
            'obligations': n_obl, 'discharged': discharged,
            'inconclusive': inconclusive,
            'explanation': 'states = feasible execution paths of the real serif code explored symbolically by CrossHair '
                           '(each path condition decided by z3); transitions = z3 check() calls; discharged = obligations whose '
                           'whole path space was exhausted with the postcondition holding (CONFIRMED) or whose SMT query was unsat; '
                           'inconclusive obligations ended on their time budget without a counterexample (bug-hunting only).',
            'functions_encoded': sorted(functions_encoded),
            'solver_seconds': round(tot_solver_s, 2),
            'exhaustive': bool(n_obl and discharged == n_obl),
            'harness_errors': harness_errors,
            'known_findings_reported': sorted(t for (_o, _m) in known_printed for t in [next(k['text'] for k in known if k['match'] == _m and k['obligation'] == _o)]),
        },
        'assumptions': list(getattr(mod, 'ASSUMPTIONS', [])),
        'wall_s': round(time.time() - t0, 2),
        'violations': len(violations),
    }
    os.makedirs(os.path.join(OUT, 'evidence'), exist_ok=True)
    if not only:
        json.dump(ev, open(os.path.join(OUT, 'evidence', pid + '.json'), 'w'), indent=1, default=repr)
        # a per-tier copy, so that the last quick and the last thorough run can both be inspected
        json.dump(ev, open(os.path.join(OUT, 'evidence', '%s.%s.json' % (pid, tier)), 'w'), indent=1, default=repr)

    by = {}
    for f in finals:
        by[f] = by.get(f, 0) + 1
    log('%s %s: %d obligations %s; %d paths, %d solver checks (%.1fs solver), %d native replays, wall %.1fs'
        % (pid, tier, n_obl, json.dumps(by), tot_paths, tot_checks, tot_solver_s, replays_done, time.time() - t0))
    for b in b_results:
        log('  engine-B %s: %s' % (b['name'], b['status']))
    if inconclusive:
        log('  inconclusive (budget): ' + ', '.join(inconclusive[:12]) + (' ...' if len(inconclusive) > 12 else ''))
    for n, rpath, crep in violations[:8]:
        why = '; '.join((crep.get('why') or [])[-2:]) if isinstance(crep.get('why'), list) else ''
        log('  violated obligation %s: %s %s' % (n, why, (crep.get('exception') or '')))
        log('VIOLATION property=%s replay=%s' % (pid, rpath))
    if len(violations) > 8:
        log('  ... and %d more violated obligations (see evidence/%s.json)' % (len(violations) - 8, pid))
    if violations:
        return 1
    if harness_errors:
        for h in harness_errors[:20]:
            log('HARNESS-ERROR ' + h)
        return 2
    return 0


def main(argv):
    if argv and argv[0] == '--replay':
        env = dict(os.environ); env.pop('PYTHONPATH', None)
        return subprocess.call([PY_PLAIN, '-m', 'vp.replay', '--file', argv[1]], cwd=ROOT, env=env)
    import argparse
    ap = argparse.ArgumentParser()
    ap.add_argument('pid'); ap.add_argument('tier', nargs='?', default=os.environ.get('VERIF_TIER', 'quick'))
    ap.add_argument('--only'); ap.add_argument('--jobs', type=int); ap.add_argument('-v', action='store_true')
    a = ap.parse_args(argv)
    return check(a.pid.upper(), a.tier, a.only, a.jobs, a.v)


if __name__ == '__main__':
    sys.exit(main(sys.argv[1:]))

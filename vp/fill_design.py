"""dev-time: regenerate the two generated tables of DESIGN.md (timing table from evidence/*.quick.json, seeded-change table from seeded/*/meta.json)"""
import os, json, glob, subprocess, sys
ROOT = os.path.dirname(os.path.dirname(os.path.abspath(__file__)))
p = os.path.join(ROOT, 'DESIGN.md'); s = open(p).read()
def put(s, tag, body):
    begin = '<!-- %s:begin -->' % tag; end = '<!-- %s:end -->' % tag
    a = s.index(begin); b = s.index(end) + len(end)
    return s[:a] + begin + '\n' + body + '\n' + end + s[b:]
tt = subprocess.run([sys.executable, os.path.join(ROOT, 'vp', 'mkdesign_tables.py')], capture_output=True, text=True).stdout.strip()
rows = ['| seeded change | what it does | owning quick check | first obligations that fail |', '|---|---|---|---|']
for m in sorted(glob.glob(os.path.join(ROOT, 'seeded', '*', 'meta.json'))):
    j = json.load(open(m))
    rows.append('| %s | %s | %s | %s |' % (j['id'], j.get('summary', '').replace('|', '/')[:230], 'caught (exit 1)' if j.get('owning_check_exit') == 1 else 'exit %r' % j.get('owning_check_exit'), '; '.join(j.get('caught_by', [])[:2]) or '-'))
s = put(s, 'TIMETABLE', tt); s = put(s, 'MUTANT_TABLE', '\n'.join(rows))
open(p, 'w').write(s)
print('tables regenerated')

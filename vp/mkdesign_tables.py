"""dev-time: fills the @@TIMETABLE@@ placeholder of DESIGN.md from evidence/*.quick.json"""
import json, os, re, collections
ROOT = os.path.dirname(os.path.dirname(os.path.abspath(__file__)))
rows = []
for i in range(1, 21):
    pid = 'C%02d' % i
    p = os.path.join(ROOT, 'evidence', pid + '.quick.json')
    if not os.path.exists(p):
        p = os.path.join(ROOT, 'evidence', pid + '.json')
    ev = json.load(open(p))
    cov = ev['coverage']
    fam = collections.OrderedDict()
    st = collections.Counter()
    for s in cov['samples']:
        name = s.get('obligation') or s.get('name')
        f = re.split(r'[\[ ]', name)[0]
        fam[f] = fam.get(f, 0) + 1
        st[s.get('status')] += 1
    fams = ', '.join('%s x%d' % kv for kv in fam.items())
    status = ', '.join('%d %s' % (v, k) for k, v in st.items())
    rows.append('| %s | %s | %d (%s); %d paths, %d solver checks | %.0f s |' % (pid, fams, cov['obligations'], status, cov['states'], cov['transitions'], ev['wall_s']))
print('\n'.join(rows))

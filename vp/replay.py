"""Native replay: plain interpreter (/venv/bin/python), CrossHair not imported.

    python -m vp.replay <batch.json>          # batch: list of {id, module, fn, config, args, expect_end}
    python -m vp.replay --file <replay.json>  # a stored violation replay (./check --replay)

For each item the harness module is imported with the item's configuration, the function is
called on the concrete arguments and the outcome is reported:
    result True/False/'raised', reasons recorded by H.fail(), whether the end of the body was
    reached, and (optionally) the serif functions that executed.
One process per distinct (module, config) would be cleanest; configurations are read at import
time, so each item runs in a forked child.
"""
import os, sys, json, traceback, inspect


def run_item(item, profile=False):
    os.environ['VP_JOB'] = json.dumps({'config': item.get('config', {}), 'exclude': []})
    sys.setrecursionlimit(3000)
    import importlib
    from vp import h as H
    assert not H.HAVE_CH or os.environ.get('VP_ALLOW_CH'), 'replay must run without crosshair'
    mod = importlib.import_module(item['module'])
    fn = getattr(mod, item['fn'])
    names = list(inspect.signature(fn).parameters)
    args = item['args']
    if isinstance(args, dict):
        args = [args[n] for n in names]
    funcs = set()
    src = H.SERIF_SRC

    def prof(frame, event, arg):
        if event == 'call':
            co = frame.f_code
            if co.co_filename.startswith(src):
                funcs.add(os.path.basename(co.co_filename)[:-3] + '.' + co.co_qualname)
    out = {'id': item.get('id')}
    try:
        if profile:
            sys.setprofile(prof)
        try:
            r = fn(*args)
        finally:
            sys.setprofile(None)
        out['result'] = True if r is True else (False if r is False else repr(r))
    except BaseException as e:
        out['result'] = 'raised'
        out['exception'] = repr(e)[:500]
        out['traceback'] = traceback.format_exc()[-2500:]
    out['why'] = list(H.WHY)[-5:]
    out['reached_end'] = bool(H.REACHED_END[0])
    if profile:
        out['functions'] = sorted(funcs)
    return out


def run_forked(item, profile=False, timeout=120):
    r, w = os.pipe()
    pid = os.fork()
    if pid == 0:
        os.close(r)
        try:
            import signal
            signal.alarm(timeout)
            res = run_item(item, profile)
        except BaseException as e:
            res = {'id': item.get('id'), 'result': 'harness_error', 'exception': repr(e), 'traceback': traceback.format_exc()[-2000:]}
        try:
            os.write(w, json.dumps(res, default=repr).encode())
        finally:
            os._exit(0)
    os.close(w)
    chunks = []
    while True:
        b = os.read(r, 65536)
        if not b:
            break
        chunks.append(b)
    os.close(r)
    _, st = os.waitpid(pid, 0)
    if not chunks:
        return {'id': item.get('id'), 'result': 'harness_error', 'exception': 'child died, status %r' % st}
    return json.loads(b''.join(chunks).decode())


def main(argv):
    if argv and argv[0] == '--file':
        data = json.load(open(argv[1]))
        item = {'id': 'replay', 'module': data['module'], 'fn': data['fn'], 'config': data.get('config', {}), 'args': data['args']}
        res = run_forked(item)
        print(json.dumps(res, indent=1))
        reproduced = res['result'] is not True
        print('REPRODUCED' if reproduced else 'NOT REPRODUCED')
        return 1 if reproduced else 0
    items = json.load(open(argv[0]))
    results = [run_forked(it, profile=bool(it.get('profile'))) for it in items]
    sys.stdout.write('\nVPREPLAY ' + json.dumps(results, default=repr) + '\n')
    return 0


if __name__ == '__main__':
    sys.exit(main(sys.argv[1:]))

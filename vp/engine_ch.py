"""Engine A driver: CrossHair 0.0.110 through its API, configured as DESIGN.md 2.1 describes.

* callee contracts OFF (no short-circuiting, no enforcement wrappers): every call is interpreted
* counters: feasible paths (attempt_call), solver checks and solver seconds (z3.Solver.check)
* the concrete counterexample is captured from CrossHair's own realisation step rather than
  parsed back out of the message text
"""
import contextlib, time, sys, random

import z3
import crosshair.core as core
import crosshair.enforce as enforce
from crosshair.core_and_libs import analyze_function, run_checkables
from crosshair.options import AnalysisOptionSet, AnalysisKind
from crosshair.statespace import MessageType, context_statespace
from crosshair.tracers import NoTracing

EXPECTED_VERSION = '0.0.110'

STATS = {'paths': 0, 'solver_checks': 0, 'solver_s': 0.0}
LAST_CE = [None]


def configure():
    import crosshair
    if crosshair.__version__ != EXPECTED_VERSION:
        raise RuntimeError('driver configuration was written against crosshair %s, found %s'
                           % (EXPECTED_VERSION, crosshair.__version__))
    # --- interpret every callee, never summarise by contract
    for attr in ('__enter__', '__exit__', 'make_interceptor'):
        if not hasattr(core.ShortCircuitingContext, attr):
            raise RuntimeError('ShortCircuitingContext.%s missing' % attr)
    core.ShortCircuitingContext.__enter__ = lambda self: None
    core.ShortCircuitingContext.__exit__ = lambda self, *a: False
    core.ShortCircuitingContext.make_interceptor = lambda self, original: original

    @contextlib.contextmanager
    def _no_enforcement(self):
        yield None
    if not hasattr(enforce.EnforcedConditions, 'enabled_enforcement'):
        raise RuntimeError('EnforcedConditions.enabled_enforcement missing')
    enforce.EnforcedConditions.enabled_enforcement = _no_enforcement

    # --- counters
    _orig_attempt = core.attempt_call

    def counting_attempt(*a, **k):
        STATS['paths'] += 1
        return _orig_attempt(*a, **k)
    core.attempt_call = counting_attempt

    _orig_check = z3.Solver.check

    def counting_check(self, *a):
        t = time.perf_counter()
        try:
            return _orig_check(self, *a)
        finally:
            STATS['solver_checks'] += 1
            STATS['solver_s'] += time.perf_counter() - t
    z3.Solver.check = counting_check

    # --- capture realised counterexample arguments
    _orig_msg = core.make_counterexample_message

    def capturing(conditions, args, return_val=None):
        msg = _orig_msg(conditions, args, return_val)
        try:
            reprer = context_statespace().extra(core.LazyCreationRepr)
            with NoTracing():
                real = reprer.deep_realize(args)
                LAST_CE[0] = {k: _plain(v) for k, v in real.arguments.items()}
        except BaseException as e:   # never let bookkeeping disturb the analysis
            LAST_CE[0] = {'__capture_error__': repr(e)}
        return msg
    core.make_counterexample_message = capturing


def _set_seed(seed):
    """CrossHair seeds its search RNG with a constant; VERIF_SEED is mixed into it.  The seed only
    changes the exploration order (which matters for jobs that end on budget)."""
    import crosshair.statespace as ss
    base = 1801243388510242075
    s = base if not seed else (base ^ (int(seed) * 0x9E3779B97F4A7C15)) & ((1 << 63) - 1)
    mk = lambda: random.Random(s)
    for mod in list(sys.modules.values()):
        if mod is not None and getattr(mod, '__name__', '').startswith('crosshair') and hasattr(mod, 'newrandom'):
            mod.newrandom = mk


def _plain(v):
    """Turn a realised argument into a plain builtin value (no symbolic proxy types)."""
    if v is None or type(v) in (bool, int, float, str):
        return v
    if isinstance(v, bool):
        return bool(v)
    if isinstance(v, int):
        return int(v)
    if isinstance(v, float):
        return float(v)
    if isinstance(v, str):
        return str(v)
    if isinstance(v, (list, tuple)):
        return [_plain(x) for x in v]
    return v


def analyze(fn, budget_s, seed=0):
    """Returns dict(status=..., message=..., args=...) for one harness function.
    status: CONFIRMED | INCONCLUSIVE | COUNTEREXAMPLE | PRE_UNSAT | ENGINE_ERROR"""
    LAST_CE[0] = None
    _set_seed(seed)
    opts = AnalysisOptionSet(per_condition_timeout=float(budget_s), per_path_timeout=float(budget_s),
                             max_uninteresting_iterations=10 ** 9,
                             analysis_kind=[AnalysisKind.PEP316])
    msgs = list(run_checkables(analyze_function(fn, opts)))
    if not msgs:
        return {'status': 'ENGINE_ERROR', 'message': 'no analysis message (no contract found?)'}
    states = [m.state for m in msgs]
    for m in msgs:
        if m.state in (MessageType.POST_FAIL, MessageType.EXEC_ERR, MessageType.POST_ERR):
            if 'NotDeterministic' in m.message:
                return {'status': 'ENGINE_ERROR', 'message': m.message}
            return {'status': 'COUNTEREXAMPLE', 'kind': m.state.name, 'message': m.message,
                    'args': LAST_CE[0], 'traceback': (m.traceback or '')[-1500:]}
    if MessageType.SYNTAX_ERR in states:
        return {'status': 'ENGINE_ERROR', 'message': '; '.join(m.message for m in msgs)}
    if MessageType.PRE_UNSAT in states:
        return {'status': 'PRE_UNSAT', 'message': '; '.join(m.message for m in msgs)}
    if MessageType.CONFIRMED in states:
        return {'status': 'CONFIRMED', 'message': ''}
    return {'status': 'INCONCLUSIVE', 'message': '; '.join(m.message for m in msgs)}

#!/bin/bash
# dev helper: run every quick (or thorough) check in turn and summarise
cd "$(dirname "$0")/.."
TIER=${1:-quick}
for p in C01 C02 C03 C04 C05 C06 C07 C08 C09 C10 C11 C12 C13 C14 C15 C16 C17 C18 C19 C20; do
  s=$(date +%s)
  ./check $p $TIER > /tmp/sweep_$p.log 2>&1; rc=$?
  e=$(date +%s)
  echo "$p rc=$rc wall=$((e-s))s $(grep -E "^$p $TIER" /tmp/sweep_$p.log | cut -c1-160)"
done

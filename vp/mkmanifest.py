"""Regenerates MANIFEST.json from the harness modules present (dev-time helper)."""
import json, os, sys
ROOT = os.path.dirname(os.path.dirname(os.path.abspath(__file__)))
sys.path.insert(0, ROOT)
props = [json.loads(l) for l in open(os.path.join(ROOT, 'properties.jsonl'))]
META = json.load(open(os.path.join(ROOT, 'vp', 'manifest_meta.json')))
checks = []; na = []
for p in props:
    pid = p['id']
    m = META.get(pid)
    if m is None or not os.path.exists(os.path.join(ROOT, 'harness', pid.lower() + '.py')) or m.get('not_applicable'):
        na.append({'property_id': pid, 'reason': (m or {}).get('not_applicable', 'check not built yet (work in progress)')})
        continue
    checks.append({
        'property_id': pid,
        'quick_cmd': './check %s quick' % pid,
        'thorough_cmd': './check %s thorough' % pid,
        'evidence_file': '/verif/evidence/%s.json' % pid,
        'replay_cmd_template': './check --replay {path}',
        'engine': m.get('engine', 'crosshair+z3'),
        'level_claimed': {'category': 'model_checking', 'text': m['text'], 'design_ref': m.get('design_ref', 'DESIGN.md section 5, ' + pid)},
        'level_note': m['note'],
        'technique': m.get('technique', 'bounded symbolic execution of the real serif code (CrossHair 0.0.110, z3 5.1 decides every branch); counterexamples replayed natively'),
    })
man = {
    'version': 1,
    'setup_cmd': './setup.sh',
    'hooks': {'guard': 'SERIF_VERIF', 'enable': 'no hooks: checks import /repo/src/serif as it is in the working tree; SERIF_VERIF is reserved and unused',
              'baseline_off_cmd': 'cd /repo && /venv/bin/python -m pytest -ra -q -p no:cacheprovider --timeout=900 --continue-on-collection-errors',
              'source_commits': [], 'add_only': True},
    'engines': [
        {'name': 'crosshair+z3', 'path': 'vp/engine_ch.py', 'serves_properties': [c['property_id'] for c in checks],
         'kind_free_text': 'symbolic execution of CPython bytecode of /repo/src/serif (CrossHair 0.0.110) with z3 5.1 deciding branch feasibility; one process per obligation; callee contracts off'},
        {'name': 'direct-smt', 'path': 'vp/engine_smt.py', 'serves_properties': ['C07', 'C08'],
         'kind_free_text': 'AST -> z3 translation of typeutils.slice_length, regenerated every run; SMT-LIB2 dump cross-checked with /usr/bin/z3 and cvc5'},
    ],
    'checks': checks,
    'not_applicable': na,
    'notes': META.get('_notes', ''),
}
json.dump(man, open(os.path.join(ROOT, 'MANIFEST.json'), 'w'), indent=1)
print('checks:', [c['property_id'] for c in checks], 'n/a:', [x['property_id'] for x in na])

#!/bin/bash
# Builds /verif/.venv: an overlay venv on /venv (the repo's interpreter, python 3.12) with
# crosshair-tool (+ z3-solver) installed offline from /opt/veriftools/wheels.  Idempotent.
set -e
cd "$(dirname "$0")"
V=.venv
if [ -x $V/bin/python ] && $V/bin/python -c 'import crosshair, z3' 2>/dev/null; then
  exit 0
fi
rm -rf $V
/venv/bin/python -m venv $V
SP=$($V/bin/python -c 'import sysconfig; print(sysconfig.get_paths()["purelib"])')
echo "import site; site.addsitedir('/venv/lib/python3.12/site-packages')" > $SP/_verif_overlay.pth
PIP_NO_INDEX=1 $V/bin/python -m pip install -q --no-index --find-links /opt/veriftools/wheels crosshair-tool >/dev/null
$V/bin/python -c 'import crosshair, z3; print("setup ok: z3", z3.get_version_string())'
